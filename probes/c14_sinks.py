"""Reproduces the C14 arithmetic-domain defects with a scripted stream (documentation; run against a tree *before* the
C14 fix commits to see the errors, after them to see the corrected behaviour).
run: /venv/bin/python probes/c14_sinks.py"""
from pydsol.core.streams import StreamInterface
from pydsol.core import distributions as D


class Script(StreamInterface):
    def __init__(self, values):
        self.values = list(values)
        self.i = 0

    def next_float(self):
        v = self.values[self.i % len(self.values)]
        self.i += 1
        return v

    def next_bool(self): return self.next_float() < 0.5
    def next_int(self, lo, hi): return lo
    def seed(self): return 0
    def original_seed(self): return 0
    def set_seed(self, seed): pass
    def reset(self): self.i = 0
    def save_state(self): return self.i
    def restore_state(self, s): self.i = s


def attempt(label, f):
    try:
        print(f'{label:42s} -> {f()!r}')
    except Exception as e:
        print(f'{label:42s} -> {type(e).__name__}: {e}')


Z = [0.0, 0.3, 0.6, 0.9]
attempt('Exponential, u=0', lambda: D.DistExponential(Script(Z), 2.0).draw())
attempt('Erlang(k=3), u=0', lambda: D.DistErlang(Script(Z), 2.0, 3).draw())
attempt('Gamma(shape=1), u=0', lambda: D.DistGamma(Script(Z), 1.0, 2.0).draw())
attempt('Gamma(shape=2.5), u1=0', lambda: D.DistGamma(Script(Z), 2.5, 2.0).draw())
attempt('Gamma(shape=2.5), u2=0', lambda: D.DistGamma(Script([0.9999, 0.0, 0.3, 0.4]), 2.5, 2.0).draw())
attempt('Weibull, u=0', lambda: D.DistWeibull(Script(Z), 1.5, 2.0).draw())
attempt('Geometric(0.3), u=0', lambda: D.DistGeometric(Script(Z), 0.3).draw())
attempt('NegBinomial(2, 0.3), u=0', lambda: D.DistNegBinomial(Script(Z), 2, 0.3).draw())
attempt('Geometric(p=1.0) constructor', lambda: D.DistGeometric(Script(Z), 1.0).draw())
attempt('Geometric(p=0.0) draw', lambda: D.DistGeometric(Script([0.5]), 0.0).draw())
attempt('NegBinomial(p=1.0) constructor', lambda: D.DistNegBinomial(Script(Z), 2, 1.0).draw())
attempt('NegBinomial(p=0.0) draw', lambda: D.DistNegBinomial(Script([0.5]), 2, 0.0).draw())
attempt('Normal, u=(.5,.5) (s=0)', lambda: D.DistNormal(Script([0.5, 0.5, 0.3, 0.8])).draw())
attempt('Beta(0.5,0.5), gamma draws 0 and 0', lambda: D.DistBeta(Script([0.0, 0.5]), 0.5, 0.5).draw())
attempt('Pearson5(0.5, 1), gamma draw 0', lambda: D.DistPearson5(Script([0.0, 0.5]), 0.5, 1.0).draw())
attempt('Pearson6(0.5,0.5,1), gamma draws 0', lambda: D.DistPearson6(Script([0.0, 0.5]), 0.5, 0.5, 1.0).draw())
