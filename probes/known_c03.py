"""Reproduces the C03 known findings against the real code (documentation only; not used by any check).
run: /venv/bin/python probes/known_c03.py"""
import time
from pydsol.core.simulator import DEVSSimulatorFloat
from pydsol.core.model import DSOLModel
from pydsol.core.experiment import SingleReplication


class M(DSOLModel):
    def __init__(self, sim, times):
        super().__init__(sim)
        self.times = times
        self.ran = []

    def construct_model(self):
        for t in self.times:
            self.simulator.schedule_event_abs(t, self, 'hit', t=t)

    def hit(self, t):
        self.ran.append(t)


def wait(sim):
    for _ in range(2000):
        if not sim.is_starting_or_running():
            return
        time.sleep(0.001)


# R3.3: step() executes an event later than the replication end
sim = DEVSSimulatorFloat('s')
m = M(sim, [12.0])
sim.initialize(m, SingleReplication('r', 0.0, 0.0, 10.0))
sim.step()  # executes the warm-up event at t=0
sim.step()  # executes the model event at t=12 although the replication ends at 10
print('R3.3 step(): executed', m.ran, 'clock', sim.simulator_time, '(replication end 10.0)')
sim.cleanup()

# R3.4: run_up_to(20) on a 10-long replication executes events up to 20
for cmd in ('run_up_to', 'run_up_to_including'):
    sim = DEVSSimulatorFloat('s')
    m = M(sim, [5.0, 15.0, 20.0])
    sim.initialize(m, SingleReplication('r', 0.0, 0.0, 10.0))
    getattr(sim, cmd)(20.0)
    wait(sim)
    time.sleep(0.05)
    print(f'R3.4 {cmd}(20.0): executed', m.ran, 'clock', sim.simulator_time, '(replication end 10.0)')
    sim.cleanup()
