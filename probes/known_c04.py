"""Reproduces the C04 known findings against the real code (documentation only; not used by any check).
run: /venv/bin/python probes/known_c04.py"""
import threading
import time
from pydsol.core.simulator import DEVSSimulatorFloat, Simulator
from pydsol.core.model import DSOLModel
from pydsol.core.experiment import SingleReplication
from pydsol.core.interfaces import ReplicationInterface
from pydsol.core.pubsub import EventListener
from pydsol.core.utils import DSOLError


class M(DSOLModel):
    def __init__(self, sim):
        super().__init__(sim)
        self.constructed = 0

    def construct_model(self):
        self.constructed += 1
        self.simulator.schedule_event_abs(5.0, self, 'slow')

    def slow(self):
        pass


# R4.1: initialize() with a warm-up time before the start time raises DSOLError after everything has happened
sim = DEVSSimulatorFloat('s')
m = M(sim)
try:
    sim.initialize(m, SingleReplication('r', 0.0, -1.0, 10.0))
    print('R4.1 initialize: no error')
except DSOLError as e:
    print('R4.1 initialize refused with:', e, '| run_state', sim.run_state.name, '| model constructed', m.constructed,
          '| pending events', sim.eventlist().size(), '(no warm-up event)')
sim.cleanup()


# R4.5: stop() overwrites the worker's ENDED with STOPPING
class Rendezvous(EventListener):
    """runs on the caller thread inside stop(): waits until the worker has ended the replication"""
    def __init__(self):
        self.ended = threading.Event()

    def notify(self, event):
        if event.event_type == ReplicationInterface.END_REPLICATION_EVENT:
            self.ended.set()
        elif event.event_type == Simulator.STOPPING_EVENT:
            self.ended.wait(2.0)


class Slow(DSOLModel):
    def construct_model(self):
        self.simulator.schedule_event_abs(1.0, self, 'nap')

    def nap(self):
        time.sleep(0.2)


sim = DEVSSimulatorFloat('s2')
r = Rendezvous()
sim.add_listener(Simulator.STOPPING_EVENT, r)
sim.add_listener(ReplicationInterface.END_REPLICATION_EVENT, r)
sim.initialize(Slow(sim), SingleReplication('r', 0.0, 0.0, 10.0))
# re-subscribe: initialize -> cleanup removes listeners only when a worker existed; subscribe again to be sure
sim.add_listener(Simulator.STOPPING_EVENT, r)
sim.add_listener(ReplicationInterface.END_REPLICATION_EVENT, r)
sim.start()
time.sleep(0.05)            # worker is inside nap()
sim.stop()                  # STOPPING_EVENT listener blocks until END_REPLICATION, then _stop_impl writes STOPPING
time.sleep(0.3)
print('R4.5 after stop() racing with the end of the replication: run_state', sim.run_state.name,
      '| replication_state', sim.replication_state.name, '(expected ENDED/ENDED)')
try:
    sim.start()
except DSOLError as e:
    print('     start() afterwards:', e)
try:
    sim.stop()
except DSOLError as e:
    print('     stop() afterwards:', e)
