"""Trial of the planned fix: patches on a SCRATCH copy (never /repo). CRLF-preserving byte edits.
Usage: apply_fix.py <root> [fix-id ...]   (scratch_root/src/pydsol/core/...)
Each entry: (id, file, old, new) with LF in the literals; converted to CRLF before matching.
"""
import sys

root = sys.argv[1]
only = set(sys.argv[2:])
C = root + '/src/pydsol/core/'

FIXES = [
 # C01
 ('C01-remove-heapify', 'eventlist.py',
  "            self._event_list.remove((event.time, -event.priority,\n                                     event._id, event))\n            return True\n",
  "            self._event_list.remove((event.time, -event.priority,\n                                     event._id, event))\n            heapq.heapify(self._event_list)\n            return True\n"),
 # C02 admission guard NaN-proof
 ('C02-guard-nan', 'simulator.py',
  "        if event.time < self._simulator_time:\n            raise DSOLError(\"cannot schedule event in the past\")\n        self._eventlist.add(event)\n",
  "        if not event.time >= self._simulator_time:\n            raise DSOLError(\"cannot schedule event in the past\")\n        self._eventlist.add(event)\n"),
 ('C02-rel-delay', 'simulator.py',
  "        if delay < 0:\n            raise DSOLError(\"cannot schedule event in the past\")\n        return self.schedule_event(SimEvent(self._simulator_time + delay,\n                 target, method, priority, **kwargs))\n",
  "        time = self._simulator_time + delay\n        if not time >= self._simulator_time:\n            raise DSOLError(\"cannot schedule event in the past\")\n        return self.schedule_event(SimEvent(time,\n                 target, method, priority, **kwargs))\n"),
 ('C02-abs-nan', 'simulator.py',
  "        if time < self._simulator_time:\n            raise DSOLError(\"cannot schedule event in the past\")\n        return self.schedule_event(SimEvent(time,\n",
  "        if not time >= self._simulator_time:\n            raise DSOLError(\"cannot schedule event in the past\")\n        return self.schedule_event(SimEvent(time,\n"),
 # C02/C03 _run: monotone clock, ENDING only at the replication end
 ('C03-run-ending', 'simulator.py',
  "                self._simulator_time = self._run_until_time\n                self._replication_state = ReplicationState.ENDING\n                self._run_state = RunState.STOPPING\n                return;\n",
  "                if self._run_until_time > self._simulator_time:\n                    self._simulator_time = self._run_until_time\n                if self._simulator_time >= self._replication.end_sim_time:\n                    self._replication_state = ReplicationState.ENDING\n                self._run_state = RunState.STOPPING\n                return;\n"),
 ('C02-run-clock', 'simulator.py',
  "                self._simulator_time = self._run_until_time\n                self._replication_state = ReplicationState.ENDING\n",
  "                if self._run_until_time > self._simulator_time:\n                    self._simulator_time = self._run_until_time\n                self._replication_state = ReplicationState.ENDING\n"),
 ('C03-run-ending2', 'simulator.py',
  "                    self._simulator_time = self._run_until_time\n                self._replication_state = ReplicationState.ENDING\n",
  "                    self._simulator_time = self._run_until_time\n                if self._simulator_time >= self._replication.end_sim_time:\n                    self._replication_state = ReplicationState.ENDING\n"),
 # C04 bound written after admission
 ('C04-start-bound', 'simulator.py',
  "        if self._replication == None:\n            raise DSOLError(\"no replication details\")\n        self._run_until_time = self._replication.end_sim_time\n        self._run_until_including = True\n        self._start_impl()\n",
  "        if self._replication == None:\n            raise DSOLError(\"no replication details\")\n        self._start_impl(self._replication.end_sim_time, True)\n"),
 ('C04-runupto-bound', 'simulator.py',
  "        self._run_until_time = stop_time\n        self._run_until_including = False\n        self._start_impl()\n",
  "        self._start_impl(stop_time, False)\n"),
 ('C04-runuptoincl-bound', 'simulator.py',
  "        self._run_until_time = stop_time\n        self._run_until_including = True\n        self._start_impl()\n",
  "        self._start_impl(stop_time, True)\n"),
 ('C04-startimpl-sig', 'simulator.py',
  "    def _start_impl(self):\n",
  "    def _start_impl(self, run_until_time, run_until_including: bool):\n"),
 ('C04-startimpl-assign', 'simulator.py',
  "            raise DSOLError(\"cannot start: simulator_time > run length\")\n        self._run_state = RunState.STARTING\n        if self._replication_state == ReplicationState.INITIALIZED:\n            self.fire_timed(self._simulator_time,\n                ReplicationInterface.START_REPLICATION_EVENT, None)\n            self._replication_state = ReplicationState.STARTED\n        self.fire(Simulator.STARTING_EVENT, None)\n",
  "            raise DSOLError(\"cannot start: simulator_time > run length\")\n        self._run_until_time = run_until_time\n        self._run_until_including = run_until_including\n        self._run_state = RunState.STARTING\n        if self._replication_state == ReplicationState.INITIALIZED:\n            self.fire_timed(self._simulator_time,\n                ReplicationInterface.START_REPLICATION_EVENT, None)\n            self._replication_state = ReplicationState.STARTED\n        self.fire(Simulator.STARTING_EVENT, None)\n"),
 ('C04-init-warmup', 'simulator.py',
  "            raise DSOLError(f\"replication {replication} not valid\")\n        self._eventlist.clear()\n",
  "            raise DSOLError(f\"replication {replication} not valid\")\n        if not replication.warmup_sim_time >= replication.start_sim_time:\n            raise DSOLError(f\"replication {replication} has its warmup time before its start time\")\n        self._eventlist.clear()\n"),
 # C04 end_replication guard
 ('C04-endrep-guard', 'simulator.py',
  "    def end_replication(self):\n        self._replication_state = ReplicationState.ENDING\n",
  "    def end_replication(self):\n        if not self.is_initialized():\n            raise DSOLError(\"cannot end the replication of an uninitialized simulator\")\n        self._replication_state = ReplicationState.ENDING\n"),
 # C04 lost wake-up
 ('C04-wakeup-1', 'simulator.py',
  "            self.__wakeup_flag.wait()\n            self._running = True\n",
  "            self.__wakeup_flag.wait()\n            self.__wakeup_flag.clear()\n            self._running = True\n"),
 ('C04-wakeup-2', 'simulator.py',
  "            self.__wakeup_flag.clear()\n            self._running = False\n",
  "            self._running = False\n"),
 # C04 initialize validates before clearing
 ('C04-init-validate', 'simulator.py',
  "        if self.is_starting_or_running():\n            raise DSOLError(\"cannot initialize a running simulation\")\n        self._eventlist.clear()\n        super().initialize(model, replication)\n",
  "        if self.is_starting_or_running():\n            raise DSOLError(\"cannot initialize a running simulation\")\n        if not isinstance(model, ModelInterface):\n            raise DSOLError(f\"model {model} not valid\")\n        if not hasattr(model, '_simulator'):\n            raise DSOLError(f\"model {model} does not have a simulator. \" + \n                \"Did you call super.__init__(...) in the model constructor?\")\n        if not isinstance(replication, ReplicationInterface):\n            raise DSOLError(f\"replication {replication} not valid\")\n        self._eventlist.clear()\n        super().initialize(model, replication)\n"),
 # C05
 ('C05-step-str', 'simulator.py',
  "            print(\"Simulator step got exception: \" + e)\n",
  "            print(\"Simulator step got exception: \" + str(e))\n"),
 # C06
 ('C06-clear-stats', 'simulator.py',
  "        self._simulator_time = replication.start_sim_time\n        model.construct_model()\n",
  "        self._simulator_time = replication.start_sim_time\n        model.output_statistics().clear()\n        model.construct_model()\n"),
 # C13
 ('C13-hash', 'streams.py',
  "                        (1_000_037 + hash(stream_id)))\n",
  "                        (1_000_037 + zlib.crc32(stream_id.encode('utf-8'))))\n"),
 ('C13-import', 'streams.py', "import time\nfrom typing import Dict, List\n", "import time\nimport zlib\nfrom typing import Dict, List\n"),
 ('C13-keyerror', 'streams.py',
  "        if self._stream_seeds[stream_id] is None:\n",
  "        if self._stream_seeds.get(stream_id) is None:\n"),
 # C09 / C10
 ('C09-skew', 'statistics.py',
  "            skew_biased = (self._m3 / n) / self.variance() ** 1.5 \n",
  "            var = self.variance()\n            if not var > 0:\n                return math.nan\n            skew_biased = (self._m3 / n) / var ** 1.5 \n"),
 ('C09-kurt-b', 'statistics.py',
  "                d2 = (self._m2 / n)\n                return (self._m4 / n) / d2 / d2\n",
  "                d2 = (self._m2 / n)\n                if d2 > 0:\n                    return (self._m4 / n) / d2 / d2\n"),
 ('C09-kurt-u', 'statistics.py',
  "            svar = self.variance(False)\n            return self._m4 / (n - 1) / svar / svar\n",
  "            svar = self.variance(False)\n            if svar > 0:\n                return self._m4 / (n - 1) / svar / svar\n"),
 ('C09-ci-alpha0', 'statistics.py',
  "        level = 1.0 - alpha / 2.0\n        z = NormalDist(0.0, 1.0).inv_cdf(level)\n",
  "        level = 1.0 - alpha / 2.0\n        if level >= 1.0:\n            # alpha = 0: 100% confidence; the unbounded interval is clipped \n            # to the observed range, like the intervals below\n            return (self._min, self._max)\n        z = NormalDist(0.0, 1.0).inv_cdf(level)\n"),
 ('C10-wvar', 'statistics.py',
  "        if self._n > 0:\n            w_pop_var = self._weight_times_variance / self._sum_of_weights\n",
  "        if self._n > 0 and self._sum_of_weights > 0:\n            w_pop_var = self._weight_times_variance / self._sum_of_weights\n"),
 # C16
 ('C16-si-sub', 'units.py',
  "        if (type(self) != type(other)):\n            raise ValueError(\"subtracting incompatible quantities\")\n        return self._val(float(self) - float(other))\n\n    def __truediv__(self, other):\n        \"\"\"\n        Return a new quantity containing the division of this quantity \n        by the provided divisor.",
  "        if type(self) != type(other) or self._sisig != other._sisig:\n            raise ValueError(\"subtracting incompatible quantities\")\n        return self._val(float(self) - float(other))\n\n    def __truediv__(self, other):\n        \"\"\"\n        Return a new quantity containing the division of this quantity \n        by the provided divisor."),
 # C17
 ('C17-all-1', 'units.py', "    \"LinearDensity\"\n    \"LuminousFlux\",\n", "    \"LinearDensity\",\n    \"LuminousFlux\",\n"),
 ('C17-all-2', 'units.py', "    \"LinearDensity\"\n    \"LuminousFluxDist\",\n", "    \"LinearDensityDist\",\n    \"LuminousFluxDist\",\n"),
 ('C17-disp-density', 'units.py', "    _displayunits = {'kg/m^3': 1.0, 'g/cm^3': 1000.0}\n", "    _displayunits = {}\n"),
 ('C17-disp-force', 'units.py',
  "    _displayunits = {'N': 1.0, 'dyn': 1.0E-5, 'kgf': 9.80665,\n              'ozf': 0.2780138509537812, 'lbf': 4.4482216152605,\n              'tnf': 8896.443230521, 'sn': 1000.0}\n", "    _displayunits = {}\n"),
 ('C17-disp-solid', 'units.py', "    _displayunits = {'sr': 1.0, 'sq.deg': 3.046174197867086E-4}\n", "    _displayunits = {}\n"),
 ('C17-disp-torque', 'units.py',
  "    _displayunits = {'N.m': 1.0, 'm.kgf': 9.80665, 'lbf.ft': 1.3558179483314003,\n              'lbf.in': 0.1129848290276167}\n", "    _displayunits = {}\n"),
 ('C17-angstrom', 'units.py', "              '/Å': 1.0E-10, '/A': 1.0E-10}\n", "              '/Å': 1.0E10, '/A': 1.0E10}\n"),
 # C18
 ('C18-str-ro', 'parameters.py',
  "        if not isinstance(value, str):\n            raise ValueError(f\"parameter value {value} not a str\")\n        self._value = value\n",
  "        if self.read_only:\n            raise ValueError(f\"parameter {self.key} is read only\")\n        if not isinstance(value, str):\n            raise ValueError(f\"parameter value {value} not a str\")\n        self._value = value\n"),
 ('C18-set-param', 'model.py',
  "        self._input_parameters.get(key).value = value\n",
  "        self._input_parameters.get(key).set_value(value)\n"),
 # C14: uniforms that feed log()/division are drawn from (0,1)
 ('C14-helper', 'distributions.py',
  "    def _set_stream(self, stream: StreamInterface):\n        \"\"\"Internal method that can be overridden to initialize the \n",
  "    def _next_positive_float(self) -> float:\n        \"\"\"\n        Return the next pseudo-random number on the open interval (0, 1) \n        from the stream, for use in expressions such as log(u) that are not\n        defined for u = 0. Numbers larger than 0 are returned unchanged.\n        \"\"\"\n        u: float = self._stream.next_float()\n        while u == 0.0:\n            u = self._stream.next_float()\n        return u\n\n    def _set_stream(self, stream: StreamInterface):\n        \"\"\"Internal method that can be overridden to initialize the \n"),
 ('C14-exp', 'distributions.py',
  "        return -self._mean * math.log(self._stream.next_float())\n",
  "        return -self._mean * math.log(self._next_positive_float())\n"),
 ('C14-erlang', 'distributions.py',
  "                product *= self._stream.next_float()\n",
  "                product *= self._next_positive_float()\n"),
 ('C14-gamma-lt1', 'distributions.py',
  "                p: float = b * self._stream.next_float()\n",
  "                p: float = b * self._next_positive_float()\n"),
 ('C14-gamma-gt1', 'distributions.py',
  "                u1: float = self._stream.next_float()\n                u2: float = self._stream.next_float()\n                #  step 2.\n",
  "                u1: float = self._next_positive_float()\n                u2: float = self._next_positive_float()\n                #  step 2.\n"),
 ('C14-gamma-eq1', 'distributions.py',
  "            return -self._scale * math.log(self._stream.next_float())\n",
  "            return -self._scale * math.log(self._next_positive_float())\n"),
 ('C14-weibull', 'distributions.py',
  "        return (self._beta * math.pow(-math.log(self._stream.next_float()), \n",
  "        return (self._beta * math.pow(-math.log(self._next_positive_float()), \n"),
 ('C14-geom-u', 'distributions.py',
  "        u = self._stream.next_float()\n        return math.floor(math.log(u) / self._lnp)\n",
  "        u = self._next_positive_float()\n        return math.floor(math.log(u) / self._lnp)\n"),
 ('C14-negbin-u', 'distributions.py',
  "            u = self._stream.next_float()\n            x += math.floor(math.log(u) / self._lnp)\n",
  "            u = self._next_positive_float()\n            x += math.floor(math.log(u) / self._lnp)\n"),
 ('C14-normal-s', 'distributions.py',
  "        while s >= 1.0:\n",
  "        while s >= 1.0 or s == 0.0:\n"),

 ('C14-geom-p', 'distributions.py',
  "        ValueError: when p < 0 or p > 1\n        \"\"\"\n        super().__init__(stream)\n        if not isinstance(p, float):\n            raise TypeError(f\"parameter p {p} is not a float\")\n        if not 0 <= p <= 1:\n            raise ValueError(f\"parameter p {p} not between 0 and 1\")\n        self._p = p\n        self._lnp = math.log(1.0 - self._p)\n",
  "        ValueError: when p <= 0 or p > 1\n        \"\"\"\n        super().__init__(stream)\n        if not isinstance(p, float):\n            raise TypeError(f\"parameter p {p} is not a float\")\n        if not 0 < p <= 1:\n            raise ValueError(f\"parameter p {p} not larger than 0 and at most 1\")\n        self._p = p\n        # ln(1-p); for p = 1 (success at every trial) the limit -inf is used\n        if p < 1.0:\n            self._lnp = math.log(1.0 - self._p)\n        else:\n            self._lnp = -math.inf\n"),
 ('C14-negbin-p', 'distributions.py',
  "        if not 0 <= p <= 1:\n            raise ValueError(f\"parameter p {p} not between 0 and 1\")\n        if s <= 0:\n            raise ValueError(f\"parameter s {s} <= 0\")\n        self._p = p\n        self._s = s\n        # helper variable equal to ln(1-p) to avoid repetitive calculation.\n        self._lnp = math.log(1.0 - self._p)\n",
  "        if not 0 < p <= 1:\n            raise ValueError(f\"parameter p {p} not larger than 0 and at most 1\")\n        if s <= 0:\n            raise ValueError(f\"parameter s {s} <= 0\")\n        self._p = p\n        self._s = s\n        # helper variable equal to ln(1-p) to avoid repetitive calculation;\n        # for p = 1 (success at every trial) the limit -inf is used\n        if p < 1.0:\n            self._lnp = math.log(1.0 - self._p)\n        else:\n            self._lnp = -math.inf\n"),

 ('C14-geom-log1p', 'distributions.py',
  "        if p < 1.0:\n            self._lnp = math.log(1.0 - self._p)\n        else:\n            self._lnp = -math.inf\n        \n    def draw(self) -> int:\n        \"\"\"\n        Draw a value from the Binomial distribution, where the return value is\n        the number of failures before the first success",
  "        if p < 1.0:\n            self._lnp = math.log1p(-self._p)\n        else:\n            self._lnp = -math.inf\n        \n    def draw(self) -> int:\n        \"\"\"\n        Draw a value from the Binomial distribution, where the return value is\n        the number of failures before the first success"),

 # C15
 ('C15-tri', 'distributions.py',
  "        if x >= self._lo and x <= self._mode:\n            return (2.0 * (x - self._lo)",
  "        if x >= self._lo and x <= self._mode and self._mode > self._lo:\n            return (2.0 * (x - self._lo)"),
]

ok = 0
for fid, fname, old, new in FIXES:
    if only and fid not in only:
        continue
    p = C + fname
    b = open(p, 'rb').read()
    o = old.replace('\n', '\r\n').encode('utf-8')
    n = new.replace('\n', '\r\n').encode('utf-8')
    cnt = b.count(o)
    if cnt != 1:
        print(f'!! {fid}: pattern found {cnt} times in {fname}')
        continue
    open(p, 'wb').write(b.replace(o, n, 1))
    ok += 1
print(f'applied {ok}/{len(FIXES)}')
