#!/usr/bin/env python3
"""debug: apply a patch to a scratch copy of /repo/src and print the normalisation log and the normalised text of functions
usage: tools/show_norm.py <patch.diff|-> [Class.method|function ...]"""
import ast, os, shutil, subprocess, sys, tempfile
HERE = os.path.dirname(os.path.dirname(os.path.abspath(__file__)))
sys.path.insert(0, HERE)
from pdsa.core import Program
patch = sys.argv[1]
scratch = tempfile.mkdtemp(prefix='pdsa_norm_')
try:
    root = os.path.join(scratch, 't')
    shutil.copytree('/repo/src', os.path.join(root, 'src'))
    if patch != '-':
        r = subprocess.run(['git', 'apply', '--whitespace=nowarn', os.path.abspath(patch)], cwd=root, capture_output=True, text=True)
        if r.returncode:
            print(r.stderr); sys.exit(1)
    p = Program(root)
    for l in p.normalisation:
        print('LOG', l)
    for q in sys.argv[2:]:
        if '.' in q:
            c, m = q.split('.')
            fn = p.classes[c].methods.get(m) or p.classes[c].setters.get(m)
        else:
            fn = p.funcs[q][1]
        print('-----', q)
        print(ast.unparse(ast.Module(body=[s for s in fn.body if not (isinstance(s, ast.Expr) and isinstance(getattr(s, 'value', None), ast.Constant))], type_ignores=[])))
finally:
    shutil.rmtree(scratch, ignore_errors=True)
