#!/usr/bin/env python3
"""debug: run the text variants (pdsa/variants.py) whose name contains one of the given fragments against the check of their property
usage: tools/try_variants.py <fragment> [...]"""
import os, shutil, subprocess, sys, tempfile
HERE = os.path.dirname(os.path.dirname(os.path.abspath(__file__)))
sys.path.insert(0, HERE)
from pdsa.variants import VARIANTS
from pdsa.selftest import _make_variant_tree, PKG_REL
frags = sys.argv[1:]
scratch = tempfile.mkdtemp(prefix='pdsa_var_')
try:
    for pid, vs in sorted(VARIANTS.items()):
        for v in vs:
            if not any(f in v['name'] for f in frags):
                continue
            root, why = _make_variant_tree(os.path.join('/repo', PKG_REL), scratch, (pid + '_' + v['name']).replace(' ', '_').replace('/', '_')[:70], v['edits'])
            if root is None:
                print(f'SKIP {pid} {v["name"]}: {why}')
                continue
            p = subprocess.run([os.path.join(HERE, 'check'), pid, '--root', root, '--no-evidence'], capture_output=True, text=True)
            lines = [l.strip() for l in p.stdout.splitlines() if l.startswith('  R') or 'ANALYSIS-ERROR' in l]
            want = v.get('expect')
            ok = (p.returncode == 0) if v['kind'] == 'benign' else (p.returncode == 1 and any(l.startswith(want + ' ') and v.get('key', '') in l for l in lines))
            print(('ok  ' if ok else 'BAD ') + f'{pid} {v["kind"]} {v["name"]}: exit {p.returncode}')
            if not ok or '-v' in frags:
                for l in lines[:4]:
                    print('       ' + l[:230])
finally:
    shutil.rmtree(scratch, ignore_errors=True)
