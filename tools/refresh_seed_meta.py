#!/usr/bin/env python3
"""Re-run every check against every kept seeded change and record which checks report it now.

usage: tools/refresh_seed_meta.py [name prefix ...]

The demonstration of each change was confirmed when it was kept (tools/keep_seed.py); this only refreshes
`checks_reporting` / `caught_by_own_property_check` in seeded/<name>/meta.json after rules changed.  Each patch is applied to a
scratch copy of /repo's working tree outside /repo and /verif, removed afterwards.
"""
import concurrent.futures
import glob
import json
import os
import shutil
import subprocess
import sys
import tempfile
import time

VERIF = os.path.dirname(os.path.dirname(os.path.abspath(__file__)))


def sh(cmd, cwd=None, timeout=900):
    p = subprocess.run(cmd, shell=True, cwd=cwd, stdout=subprocess.PIPE, stderr=subprocess.STDOUT, text=True, timeout=timeout)
    return p.returncode, p.stdout


def one(d):
    name = os.path.basename(d)
    mp = os.path.join(d, 'meta.json')
    meta = json.load(open(mp))
    scratch = tempfile.mkdtemp(prefix='pdsa_refresh_')
    try:
        root = os.path.join(scratch, 'tree')
        os.makedirs(root)
        shutil.copytree('/repo/src', os.path.join(root, 'src'))
        shutil.copytree('/repo/tests', os.path.join(root, 'tests'))
        rc, o = sh(f'git apply --whitespace=nowarn {os.path.join(d, "patch.diff")}', cwd=root)
        if rc != 0:
            return name, None, 'patch does not apply: ' + o[-200:]
        caught = {}
        for i in range(1, 19):
            p = 'C%02d' % i
            rc, out = sh(f'./check {p} --root {root} --no-evidence', cwd=VERIF)
            viol = [l.strip() for l in out.splitlines() if l.startswith('  R') or 'ANALYSIS-ERROR' in l]
            if rc != 0:
                caught[p] = {'exit': rc, 'findings': [v[:300] for v in viol][:6]}
        before = sorted(meta.get('checks_reporting', {}))
        meta['checks_reporting'] = caught
        meta['caught_by_own_property_check'] = meta['property'] in caught and caught[meta['property']]['exit'] == 1
        meta['refreshed_at'] = time.strftime('%Y-%m-%d %H:%M:%S')
        json.dump(meta, open(mp, 'w'), indent=1)
        return name, (before, sorted(caught), meta['caught_by_own_property_check']), None
    finally:
        shutil.rmtree(scratch, ignore_errors=True)


def main():
    dirs = sorted(glob.glob(os.path.join(VERIF, 'seeded', '*')))
    if len(sys.argv) > 1:
        dirs = [d for d in dirs if any(os.path.basename(d).startswith(p) for p in sys.argv[1:])]
    own = 0
    with concurrent.futures.ThreadPoolExecutor(max_workers=16) as ex:
        for name, res, err in ex.map(one, dirs):
            if err:
                print(f'ERROR {name}: {err}')
                continue
            before, after, o = res
            own += bool(o)
            flag = '' if before == after else f'   (was {",".join(before)})'
            print(f'{"own " if o else "MISS"} {name}: {",".join(after) or "-"}{flag}')
    print(f'{own}/{len(dirs)} reported by the check of their own property')


if __name__ == '__main__':
    main()
