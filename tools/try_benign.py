#!/usr/bin/env python3
"""Run every check against behaviour-preserving refactorings delivered as patches (false-alarm round).

usage: tools/try_benign.py <dir with benign*.diff> [more dirs...]

Each patch is applied to a scratch copy of /repo's working tree (outside /repo and /verif, removed afterwards), the
unedited test suite is run on it, and all 18 checks are run with --root.  Any exit code other than 0 is printed.
"""
import concurrent.futures
import glob
import os
import shutil
import subprocess
import sys
import tempfile

VERIF = os.path.dirname(os.path.dirname(os.path.abspath(__file__)))
PY = '/venv/bin/python'


def sh(cmd, cwd=None, env=None, timeout=900):
    e = dict(os.environ)
    e.update(env or {})
    p = subprocess.run(cmd, shell=True, cwd=cwd, env=e, stdout=subprocess.PIPE, stderr=subprocess.STDOUT, text=True, timeout=timeout)
    return p.returncode, p.stdout


def one(patch):
    scratch = tempfile.mkdtemp(prefix='pdsa_benign_')
    out = {'patch': patch, 'alarms': {}}
    try:
        root = os.path.join(scratch, 'tree')
        os.makedirs(root)
        shutil.copytree('/repo/src', os.path.join(root, 'src'))
        shutil.copytree('/repo/tests', os.path.join(root, 'tests'))
        rc, o = sh(f'git apply --whitespace=nowarn {patch}', cwd=root)
        if rc != 0:
            out['error'] = 'patch does not apply: ' + o[-200:]
            return out
        if os.environ.get('BENIGN_TESTS', '1') == '1':
            rc, o = sh(f'{PY} -m pytest -q -p no:cacheprovider -x', cwd=root, env={'PYTHONPATH': os.path.join(root, 'src')})
            out['tests'] = o.strip().splitlines()[-1] if o.strip() else ''
            if rc != 0:
                out['error'] = 'tests fail with the patch'
                return out
        for i in range(1, 19):
            p = 'C%02d' % i
            rc, o = sh(f'./check {p} --root {root} --no-evidence', cwd=VERIF)
            if rc != 0:
                lines = [l.strip()[:400] for l in o.splitlines() if l.startswith('  R') or 'ANALYSIS-ERROR' in l or 'VIOLATION' in l]
                out['alarms'][p] = {'exit': rc, 'lines': lines[:5]}
        return out
    finally:
        shutil.rmtree(scratch, ignore_errors=True)


def main():
    patches = []
    for d in sys.argv[1:]:
        patches += sorted(glob.glob(os.path.join(d, 'benign*.diff'))) if os.path.isdir(d) else [d]
    bad = 0
    with concurrent.futures.ThreadPoolExecutor(max_workers=5) as ex:
        for r in ex.map(one, patches):
            if r.get('error'):
                print('SKIP ', r['patch'], r['error'])
            elif r['alarms']:
                bad += 1
                print('ALARM', r['patch'])
                for p, a in r['alarms'].items():
                    print('      ', p, 'exit', a['exit'])
                    for l in a['lines']:
                        print('          ', l)
            else:
                print('quiet', r['patch'], r.get('tests', ''))
    sys.exit(1 if bad else 0)


if __name__ == '__main__':
    main()
