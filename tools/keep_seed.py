#!/usr/bin/env python3
"""Confirm a seeded change delivered by a sub-agent and keep it under /verif/seeded/<name>/.

usage: tools/keep_seed.py <property id> <source dir with patch.diff demo.py NOTES.md> <name>

Confirmation (all in a scratch git worktree of /repo outside /repo and /verif, removed afterwards):
  1. patch applies to /repo HEAD;  2. full test suite passes with the patch;
  3. demo.py exits 1 with the patch and 0 without;  4. every check is run against the patched tree (--root).
"""
import json
import os
import shutil
import subprocess
import sys
import tempfile
import time

VERIF = os.path.dirname(os.path.dirname(os.path.abspath(__file__)))
PY = '/venv/bin/python'


def sh(cmd, cwd=None, env=None, timeout=900):
    e = dict(os.environ)
    e.update(env or {})
    p = subprocess.run(cmd, shell=True, cwd=cwd, env=e, stdout=subprocess.PIPE, stderr=subprocess.STDOUT, text=True, timeout=timeout)
    return p.returncode, p.stdout


def main():
    pid, src, name = sys.argv[1], sys.argv[2], sys.argv[3]
    dest = os.path.join(VERIF, 'seeded', name)
    scratch = tempfile.mkdtemp(prefix='pdsa_seed_')
    wt = os.path.join(scratch, 'wt')
    meta = {'property': pid, 'name': name, 'confirmed_at': time.strftime('%Y-%m-%d %H:%M:%S'), 'repo_head': sh('git -C /repo rev-parse --short HEAD')[1].strip()}
    try:
        rc, out = sh(f'git -C /repo worktree add -q --detach {wt} HEAD')
        assert rc == 0, out
        patch = os.path.join(src, 'patch.diff')
        demo = os.path.join(src, 'demo.py')
        env = {'PYTHONPATH': os.path.join(wt, 'src')}
        rc0, out0 = sh(f'{PY} {demo}', cwd=scratch, env=env, timeout=120)
        meta['demo_without_change'] = {'exit': rc0, 'tail': out0.strip().splitlines()[-2:]}
        rc, out = sh(f'git apply --whitespace=nowarn {patch}', cwd=wt)
        meta['patch_applies'] = rc == 0
        if rc != 0:
            print('PATCH DOES NOT APPLY', out)
            meta['error'] = out[-400:]
        else:
            rc, out = sh(f'{PY} -m pytest -q -p no:cacheprovider', cwd=wt, env=env)
            meta['tests_with_change'] = out.strip().splitlines()[-1]
            meta['tests_pass'] = rc == 0
            rc1, out1 = sh(f'{PY} {demo}', cwd=scratch, env=env, timeout=120)
            meta['demo_with_change'] = {'exit': rc1, 'tail': out1.strip().splitlines()[-3:]}
            caught = {}
            for i in range(1, 19):
                p = 'C%02d' % i
                rc, out = sh(f'./check {p} --root {wt} --no-evidence', cwd=VERIF)
                viol = [l.strip() for l in out.splitlines() if l.startswith('  R') or 'ANALYSIS-ERROR' in l]
                if rc != 0:
                    caught[p] = {'exit': rc, 'findings': [v[:300] for v in viol][:6]}
            meta['checks_reporting'] = caught
            meta['caught_by_own_property_check'] = pid in caught and caught[pid]['exit'] == 1
        ok = meta.get('patch_applies') and meta.get('tests_pass') and meta['demo_without_change']['exit'] == 0 and meta.get('demo_with_change', {}).get('exit') == 1
        meta['confirmed'] = bool(ok)
        if ok:
            os.makedirs(dest, exist_ok=True)
            for f in ('patch.diff', 'demo.py', 'NOTES.md'):
                if os.path.exists(os.path.join(src, f)) and os.path.abspath(src) != os.path.abspath(dest):
                    shutil.copy(os.path.join(src, f), os.path.join(dest, f))
            notes = ''
            if os.path.exists(os.path.join(src, 'NOTES.md')):
                notes = open(os.path.join(src, 'NOTES.md')).read()
            meta['needs_to_manifest'] = notes[:1500]
            meta['what_was_run'] = ['git apply patch.diff on a scratch worktree of /repo HEAD', 'full pytest suite with the change',
                                    'demo.py with and without the change', './check Cxx --root <scratch> for all 18 properties']
            json.dump(meta, open(os.path.join(dest, 'meta.json'), 'w'), indent=1, ensure_ascii=False)
        print(json.dumps({k: v for k, v in meta.items() if k != 'needs_to_manifest'}, indent=1, ensure_ascii=False))
    finally:
        sh(f'git -C /repo worktree remove --force {wt}')
        shutil.rmtree(scratch, ignore_errors=True)


if __name__ == '__main__':
    main()
