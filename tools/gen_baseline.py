#!/usr/bin/env python3
"""Regenerate pdsa/baseline.json: the names (module-level, classes, methods, class-level names, locals per function) of the tree the
rules were confirmed on.  Run only after the rules have been re-confirmed against a new reference tree:  tools/gen_baseline.py [/repo]"""
import ast, glob, json, os, sys, warnings
HERE = os.path.dirname(os.path.dirname(os.path.abspath(__file__)))
sys.path.insert(0, HERE)
from pdsa import normalize
root = sys.argv[1] if len(sys.argv) > 1 else '/repo'
trees = {}
for p in sorted(glob.glob(os.path.join(root, 'src', 'pydsol', 'core', '*.py'))):
    src = open(p, 'rb').read().decode('utf-8').replace('\r\n', '\n')
    with warnings.catch_warnings():
        warnings.simplefilter('ignore')
        trees[os.path.basename(p)[:-3]] = ast.parse(src)
b = normalize.make_baseline(trees)
json.dump(b, open(normalize.BASELINE_PATH, 'w'), indent=0, sort_keys=True)
mods = {k: v for k, v in b.items() if not k.startswith('__')}
print('modules', len(mods), 'classes', sum(len(m['classes']) for m in mods.values()), 'methods', sum(len(c['methods']) for m in mods.values() for c in m['classes'].values()), 'attribute names', len(b['__attrs__']))
