#!/usr/bin/env python3
"""Regenerate /verif/MANIFEST.json from the per-property metadata below."""
import importlib, json, os, sys
HERE = os.path.dirname(os.path.dirname(os.path.abspath(__file__)))
sys.path.insert(0, HERE)
from pdsa.manifest_meta import META, NOT_APPLICABLE  # noqa

import pdsa.manifest_meta as mm
mm.finalize()
checks = []
for pid in sorted(META):
    m = META[pid]
    checks.append({
        'property_id': pid,
        'quick_cmd': f'./check {pid} --tier quick',
        'thorough_cmd': f'./check {pid} --tier thorough',
        'evidence_file': f'/verif/evidence/{pid}.json',
        'replay_cmd_template': f'./check {pid} --replay {{path}}',
        'engine': 'pdsa',
        'level_claimed': {'category': 'other', 'text': m['text'], 'design_ref': m['design_ref']},
        'level_note': m['note'],
        'technique': m['technique'],
    })
man = {
    'version': 1,
    'setup_cmd': 'cd /verif && ./check selfcheck',
    'hooks': {
        'guard': 'PYDSOL_CORE_VERIF',
        'enable': 'none needed: the checks are static analyses of the source text; no instrumentation exists in /repo',
        'baseline_off_cmd': 'cd /repo && /venv/bin/python -m pytest -ra -q -p no:cacheprovider --timeout=900 --continue-on-collection-errors',
        'source_commits': [],
        'add_only': True,
    },
    'engines': [{
        'name': 'pdsa', 'path': '/verif/pdsa', 'serves_properties': sorted(META),
        'kind_free_text': 'repository-specific static analysis over the Python ast: class/MRO index, statement CFG with '
                          'exception edges and dominators, finite-domain guard evaluation, literal table evaluation, '
                          'numeric abstract interpretation (intervals + order facts); pure stdlib, never imports pydsol',
    }],
    'checks': checks,
    'not_applicable': [{'property_id': k, 'reason': v} for k, v in sorted(NOT_APPLICABLE.items())],
    'notes': 'Static analysis only. quick = the rules of the property on /repo\'s working tree (1-10 s each); thorough = '
             'quick plus the checker\'s own two-way self-test: ~480 scratch copies of the current tree per property -- text variants, '
             'the independently seeded changes under seeded/ and the behaviour-preserving patches under benign/ -- analysed in 16 processes, '
             '2-5 min per property (seeded violations must be reported, behaviour-preserving rewrites must stay silent). Exit 2 + ANALYSIS-ERROR = '
             'the analysis could not be carried out (never a silent pass). See DESIGN.md.',
}
json.dump(man, open(os.path.join(HERE, 'MANIFEST.json'), 'w'), indent=1, ensure_ascii=False)
print('MANIFEST.json:', len(checks), 'checks,', len(man['not_applicable']), 'not applicable')
