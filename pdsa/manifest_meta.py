"""Per-property MANIFEST metadata (consumed by tools/gen_manifest.py)."""

META = {}
NOT_APPLICABLE = {}


def _m(pid, technique, text, note, ref):
    META[pid] = {'technique': technique, 'text': text, 'note': note, 'design_ref': ref}


_m('C01',
   'representation-invariant check on the CFG (heap discipline), who-may-write, exhaustive guard evaluation of __cmp__',
   'Decides, from the source, that every mutation of the heap-backed list keeps or restores the heap invariant on every '
   'path, that the pushed key is (time, -priority, id) and readers use the same key, that key fields are immutable, ids '
   'strictly increase from one counter shared by all event classes (a classmethod increment reached through an instance '
   'would fork it per subclass), the observers agree with the stored set, and that SimEvent comparisons are the '
   'lexicographic strict total order (all 27 orderings). By induction this covers every history; no execution is sampled.',
   'Trusts the documented heapq/list contracts; assumes event times are totally ordered (NaN excluded by C02); user-supplied '
   'event-list subclasses outside the package are not analysed.',
   'DESIGN.md §3 C01')

_m('C16',
   'exhaustive literal-table evaluation of _sidict/_mul/_div; structural operator-wiring check; finite-domain guard tables',
   'Decides that every one of the ~340 conversion-table entries (explicit and generated) is dimensionally exact, that '
   '__mul__/__truediv__ of Quantity and SI consult the right table with the right operator and combine SI signatures '
   'element-wise with +/-, that asSI/as_quantity carry value and signature, and that the type guards of + - < <= > >= '
   'refuse exactly the incompatible operands (evaluated over same-type x same-signature). Exhaustive over the finite '
   'tables, so it covers every pair of quantity types rather than the pairs a test samples. Does not decide the SI '
   'unit-string parse/print round trip.',
   'Trusts ast/literal evaluation; named results rely on base-unit factor 1.0 (C17 R17.1); float arithmetic itself is '
   'trusted to compute product/quotient.',
   'DESIGN.md §3 C16')

_m('C17',
   'exhaustive literal-table evaluation of all unit tables; compound-unit grammar cross-check; tokenizer check of __all__; dataflow shape of conversion methods',
   'Decides for every declared unit of every quantity class: base unit has factor exactly 1.0, display table maps '
   'declared units to strings and aliases share a factor, descriptions cover the units, factors are positive finite '
   'floats, no duplicate literal keys, ~190 compound units agree with the factors of their components, public names '
   'exist and are all exported, __new__/displayvalue/as_unit/_val move values through the table exactly once, and no '
   'container in a class body is mutated through instances (no cross-class caches). '
   'Exhaustive over the tables. Does not decide "display value equals the original up to rounding" (floating point).',
   'Trusts ast/tokenize; compound-unit readings are those parsable into declared units with the right dimension; '
   'units whose names do not parse are not cross-checked.',
   'DESIGN.md §3 C17')

_m('C02',
   'typestate analysis on the statement CFG (pop -> clock -> execute), finite-domain raise-set evaluation of admission guards, taint lint for time-vs-literal comparisons, guarded-write check',
   'Decides on every path (incl. exception edges and loop back-edges) that a popped event gets the clock set to its own '
   'time and is executed exactly once; that the guard in front of every event-list insertion refuses exactly {past, NaN} '
   'over the ordering domain {lt, eq, gt, unordered} (negative/NaN delays likewise); that no time value is compared with '
   'a bare literal (Duration clocks); that every clock write is monotone; that cancel removes exactly its argument. '
   'Together with C01 this yields exactly-once, in-order execution for every model, which a sampled test cannot cover. '
   'Handlers\' own behaviour is not decided.',
   'Trusts C01; user handlers are assumed to reach the simulator only through public methods; the unordered case models '
   'float NaN.',
   'DESIGN.md §3 C02')

_m('C03',
   'exhaustive finite-domain evaluation of the horizon predicate; constant propagation of (bound, including) per command; dominance/unreachability checks on the CFG',
   'Decides that the stop condition of the run loop equals the specification in all 12 cases of (next time ? bound) x '
   'including x empty, that start/run_up_to/run_up_to_including run with the right bound and inclusiveness, that ENDING '
   'is unreachable while the clock is before the replication end (resumability), that every pop is dominated by a '
   'horizon test, and that bounds beyond the replication end are clamped or refused. Two of these fail on the pinned tree '
   'by design decision and are listed as known findings. Trace equality under arbitrary segmentation is not decided.',
   'Only structural preconditions of composition are checked; pauses via stop()/start() are covered by C04 race shapes.',
   'DESIGN.md §3 C03')

_m('C04',
   'interprocedural refuse-before-effect dataflow with guard-subsumption filter; exhaustive admission tables by three-valued guard evaluation; CFG pairing/dominance rules; two race-shape rules',
   'Decides that on no path of any lifecycle command an explicit refusal (own raise or feasible callee raise) follows a '
   'field write, container mutation or notification; that the admission decision of start/step/stop/run_up_to*/initialize '
   'equals the documented protocol in every abstract state of RunState x ReplicationState x replication-present x '
   '(clock ? end); that START/STOP are paired on all paths, replication start/end are fired once under their state tests, '
   'TIME_CHANGED carries the popped event time, one warm-up per initialize; that wait()/clear() are adjacent (no lost '
   'wake-up); that the optional worker is only dereferenced when known to exist; that the run thread terminates; that '
   'END_REPLICATION is announced last (both states already ENDED, no state write after it) and that a start command wakes the '
   'worker only after all its own notifications and state writes. One '
   'race shape (stop vs. end of replication) and one late refusal in initialize are genuine and listed as known findings. '
   'Outcomes of arbitrary interleavings are not decided.',
   'No lock discipline exists in the code to check against, so only two race shapes are decided; listener exceptions are '
   'outside the pairing rule for the worker thread; own-container elements are assumed well typed.',
   'DESIGN.md §3 C04')

_m('C05',
   'finite-domain evaluation of the except-branch per ErrorStrategy (effect table); typestate with exception edges; local type rule; try/finally path check',
   'Decides, for each of the five error strategies, the complete set of effects the handler around event.execute() can '
   'have on the run loop, and compares it with the property (continue: none; pause: exactly run_state := STOPPING, loop '
   'head re-reads the state); that the handler catches every Exception; that with exception edges included every popped '
   'event is still executed exactly once in order; that step() fires STOP and returns to STOPPED on every path and that '
   'its handler cannot itself raise; that the strategy the handler consults is read when the failure is handled (not a copy '
   'taken before the loop) and that no path from the handler to the next pop_first() skips the test of the run state; that '
   'the wrapper and the handler agree on the exception class. Covers every failing handler '
   'and every strategy at once.',
   'SimEvent.execute is the only place handlers are called (checked); effects are classified syntactically (field '
   'writes, container mutations, state-changing self calls, exit calls).',
   'DESIGN.md §3 C05')

_m('C06',
   'ordered must-call / dominance analysis of the inlined initialize CFGs; registry-clearing rule; reset-completeness (def-before-use over fields)',
   'Decides that initialize refuses while running before anything is cleared, clears the event list before the model is '
   'rebuilt, resets the clock before construct_model(), calls construct_model() exactly once on every path, sets both '
   'states to INITIALIZED, schedules one warm-up above normal priority, clears every duplicate-refusing registry that '
   'statistics constructors fill, and that every field written during a run is re-assigned by initialize or _start_impl. '
   'Equality of two replications\' traces is argued from these plus C07/C12, not checked.',
   'Structural reset completeness only; user models are assumed to keep their own state inside construct_model().',
   'DESIGN.md §3 C06')

_m('C08',
   'structural AST rules on the fire loops and the listener map; CFG dominance for duplicate/removal guards; finite-domain evaluation of the remove_all_listeners split; sibling cross-check; refuse-before-effect',
   'Decides that both delivery loops iterate a fresh copy of the list registered under the fired event\'s own type and '
   'call notify exactly once per element with no early exit (so subscription changes and nested firing during a '
   'notification cannot skip, duplicate or reorder deliveries), that duplicates are never stored, removals are harmless '
   'when absent, emptied lists are dropped, the four unsubscribe modes do what is documented, timed and untimed paths '
   'agree, refused calls change nothing, and that Event/TimedEvent/EventType validate payload metadata and timestamps '
   'with the documented nesting, that no listener container lives in a class body (shared by all producers) and that '
   'event types key the listener map by identity (no __eq__/__hash__ merging distinct types). Holds '
   'for every history because each operation preserves the list discipline.',
   'Trusts list/dict ordering contracts; listener objects\' own notify() behaviour is outside the analysed program.',
   'DESIGN.md §3 C08')

_m('C11',
   'constructor must-call/dominance rules; finite-domain evaluation of the notify dispatch; table cross-check (event type <-> getter) over all published rows; sibling agreement; guarded-write rule for ENDING',
   'Decides that every simulation statistic subscribes to warm-up (and replication end for the persistent one) on every '
   'constructor path, that notify forwards data unchanged / resets on warm-up / closes at the clock on replication end, '
   'that statistics are registered in and retrievable from the model, that the warm-up reset outranks same-time model '
   'events, that each of the 68 published rows carries the getter its event name denotes with the right timestamp and '
   'siblings publish the same sequence, that exactly one warm-up is scheduled per initialize at the absolute warm-up time '
   'after the clock reset, and that the replication only ends with the clock at the end. Equality with an '
   'ordinary statistic fed the filtered observations (values) is not decided.',
   'Relies on C01 (priority order), C08 (delivery), C09/C10 (getters); name-derived reference mapping for event '
   'types.',
   'DESIGN.md §3 C11')

_m('C07',
   'package-wide effect lint for nondeterminism sources with dataflow on wall-clock reads; container-kind and iteration-order rules; use-context rule for event ids; definite-assignment analysis of the run loop',
   'Decides that the package contains none of the known sources of run-to-run variation (hash()/id(), iteration over '
   'sets, process-global random functions, OS entropy, wall-clock values flowing into state; dict iteration only over '
   'str-keyed or order-insensitive loops), that listeners are stored in lists and notified in subscription order, that '
   'event ids are used only ordinally so counter values inherited from earlier work cannot matter, and that _run keeps '
   'no loop-carried local state so a pause loses nothing, and that the command thread stops notifying before it wakes the '
   'run thread (no dependence on thread timing). It excludes the known sources of variation over the whole '
   'package; it does not prove bit-identity across processes as such.',
   'One allow-listed wall-clock use (explicitly unseeded MersenneTwister) and four order-insensitive dict loops, each '
   'with a reason in the checker; user models/listeners are outside the analysed program.',
   'DESIGN.md §3 C07')

_m('C12',
   'ownership / escape analysis of the generator field; who-may-call rule for random.*; exactly-one-draw path rule on the CFG; wiring shape checks; symbolic affine bounds for the integer range',
   'Decides that each stream owns a private Random() created in its constructor that never escapes or is re-bound, that '
   'no module-level random function is used in streams.py/distributions.py (streams cannot influence each other), that '
   'every next_bool/next_float/next_int consumes exactly one underlying draw on every path (equally seeded streams stay '
   'aligned under every interleaving of draw kinds), and that set_seed/reset/save_state/restore_state are wired to the '
   'current seed and the generator state; that next_float is the generator draw itself, and, by symbolic affine bounds '
   'over lo and hi, that next_int(lo, hi) lies in [lo, hi] with both ends reachable (cases hi == lo and hi > lo) and that '
   'the bounds enter float arithmetic only through their exact difference. Float rounding of (hi-lo+1)*u for ranges wider '
   'than 2**53 is not decided.',
   'Trusts random.Random (seed determines sequence; getstate/setstate are complete).',
   'DESIGN.md §3 C12')

_m('C13',
   'backward slice of the set_seed argument; dominance rule for table lookups; statelessness lint; finite-domain raise-set evaluation; refuse-before-effect',
   'Decides that the seed given to a stream for replication r is computed only from the stream name, its original seed '
   'or configured seed list, r and constants (no hash()/id()/time/random in the slice), that seed-table lookups are '
   'guarded so unlisted streams reach the fallback updater, that update_seed keeps no state (order independence) and '
   'the driver calls it once per stream, and that ill-typed, negative or too large replication numbers are refused '
   'before the stream is touched (raise-set over (r ? 0) x (r ? len)); that every accepted update re-seeds exactly once; '
   'that no seed table lives in a class body where all experiments of a process would share it.',
   'Calls inside the slice that are neither known-deterministic nor known-varying are listed in the evidence, not '
   'flagged.',
   'DESIGN.md §3 C13')

_m('C18',
   'guard-dominance on the CFG of every set_value; normalised guard-atom comparison constructor vs setter; who-may-write; property/setter resolution over the class table; refuse-before-effect incl. publish-before-validate in constructors; finite-domain evaluation of the ordering operators',
   'Decides that every store to the value field is dominated by the read-only refusal and by the class\'s type, bounds '
   'and option checks, that every check the constructor applies to the default value also guards set_value, that '
   'default value / read-only flag / key have a single writer, that no statement stores to a setter-less property, '
   'that a parameter is handed to its parent only after its whole constructor chain has validated, that the map '
   'refuses duplicate keys before inserting and keeps children in stable display order, that the ordering operators '
   'follow display_priority, that refused set_value/add calls change nothing, that get/remove recurse with everything '
   'after the first period, and that no child container lives in a class body. Holds for every sequence of set-value '
   'attempts because each accepted store is guarded.',
   'Guard comparison is on normalised atoms (isinstance sets, chained comparisons, membership); unrecognised guard forms '
   'fall back to text equality.',
   'DESIGN.md §3 C18')

_m('C09',
   'numeric abstract interpretation (intervals with open/closed ends + NaN flag + order facts, path-sensitive, inlined, class invariants by fixpoint); NaN-structure table; refuse-before-effect; reset completeness',
   'Decides that no Tally/Counter query, nor register with its publishing chain in the event-based and simulation '
   'variants, can raise an implicit arithmetic error (division by zero, pow/sqrt/inv_cdf domain) for any admitted '
   'observation history: every arithmetic sink is proved from guards and inferred field invariants; that each getter '
   'returns NaN exactly below its documented observation threshold (0..4 and >=5 observations, 11 getter variants); '
   'that rejected observations change nothing (float conversion before the first write); that initialize resets every '
   'accumulator; that on every accepting path count/sum/min/max are updated in the right shape (def-use DAG; after the '
   'first observation min and max are the observation whatever the sentinel) and the mean moves by one convex step (which '
   'justifies m2 >= 0); that Counter is sum and count of its increments. Numerical accuracy of the moment recurrences is '
   'not decided.',
   'Axiom m4 >= 0 (numerical fact of the recurrence; m2 >= 0 is discharged by the convex-update rule); real-number semantics except that '
   'open interval ends do not survive floating-point absorption (c + tiny rounds to c); no overflow; '
   'stdlib math domains trusted.',
   'DESIGN.md §3 C09')

_m('C10',
   'numeric abstract interpretation of the weighted getters and register chains; NaN-structure table over non-zero-weight counts; refuse-before-effect; reset completeness; protocol-shape rules for the timestamped tally',
   'Decides that no weighted / timestamp-weighted query or register chain can raise an implicit arithmetic error, that '
   'NaN is returned exactly where the documentation says the statistic is undefined, that rejected input changes '
   'nothing, that initialize resets all accumulators including the timestamp state, and that the timestamp protocol '
   'has the required shape (order guard first, accumulate max(0, t - last) x previous value only while active, '
   'end_observations = register then deactivate). Equality with the exact integrals is not decided.',
   'Axiom weight_times_variance >= 0; real-number semantics; negative and NaN weights are refused by register (checked).',
   'DESIGN.md §3 C10')

_m('C14',
   'numeric abstract interpretation of constructors and draw() (return-range summaries for inner distributions, loop widening, order facts); stream-discipline / init-before-use / cache-invalidation / shared-state lints; wrapper table cross-check',
   'Decides that construction and draw() of all 19 distributions cannot raise an implicit arithmetic error for any '
   'admitted parameter set and any stream output in [0,1) (every log/division/pow/sqrt/floor sink and the range '
   'refusals of erf_inv/beta proved unreachable; two local range facts are hand proofs with written arguments), the '
   'sign/clamp part of the support from analysed return ranges and order facts, that uniforms come only from the '
   'instance\'s own stream or from inner distributions that _set_stream rebuilds with the new stream (old stream '
   'unreachable after re-pointing), that cached draw state is invalidated on re-pointing, that no class or module '
   'state is shared between instances, and that each of the 41 quantity wrappers builds the quantity it is named '
   'after; DistUniform.draw() in [lo, hi) by symbolic affine bounds under the constructor\'s ordering guard. Exact upper '
   'bounds for triangular/beta, termination of rejection loops and overflow are not decided; equality of twin draws '
   'follows from these rules plus C12.',
   'Parameters finite; real-number semantics; StreamInterface ranges assumed (C12 decides wiring only); two hand-proved '
   'range facts listed in the evidence.',
   'DESIGN.md §3 C14')

_m('C15',
   'numeric abstract interpretation of every density / probability / cdf function with a free argument; support table evaluated under order facts; guard checks for the inverse functions; exact rational-function algebra for cdf/inverse identities',
   'NARROW CLAIM: decides evaluability (no arithmetic error for any argument), non-negativity of every density and '
   'probability on every return path, that every reachable return outside the documented support is exactly 0 (cdf: 0 '
   'below, 1 above) for all 17 bounded supports, that the inverse functions guard their domains, and -- by exact '
   'rational-function algebra over erf/erf_inv/exp/log atoms with constructor-defined fields substituted -- that '
   'cumulative_probability and inverse_cumulative_probability of Normal, truncated Normal and LogNormal are mutually '
   'inverse real functions on every computed return path and that the density is the exact derivative of the cumulative '
   'function (symbolic differentiation); and, as a necessary condition of "samples follow the density", that every sampler '
   'stays inside the declared support (shared with C14). It does NOT decide the rest of the statistical core (samples '
   'follow the density, normalisation, numerical accuracy of the inverse): statements about numerical values beyond any '
   'sound static argument in reach.',
   'Supports transcribed from the docstrings into the checker; finite arguments; real-number semantics.',
   'DESIGN.md §3 C15')


def finalize():
    for i in range(1, 19):
        pid = 'C%02d' % i
        if pid not in META and pid not in NOT_APPLICABLE:
            NOT_APPLICABLE[pid] = ('check not built yet (build in progress, DESIGN.md §8); the property will be claimed '
                                   'through its structural clauses once its rules are implemented')


# ---- additions after rounds 5 and 6 (rules that now decide a clause over cases / paths instead of matching a statement shape)
_ADD = {
    'C01': ' Hand-written searches are decided as linear scans (complete exactly when start, range test and step are exact); removal by position '
           'only for a found scan result; no container of the event-list classes lives in a class body and is mutated through instances.',
    'C02': ' The typestate treats `event is None` after pop_first() as "nothing popped"; shared class-level state of the event-list / simulator classes is excluded (R1.7).',
    'C03': ' The horizon is decided by walking the flow graph of _run for each of the 12 cases from the entry and from every pop_first() to the next '
           'pop_first() or the end of the run (independent of how the test is spelled: one if, a chain, predicate helpers, a generator, a walrus loop head).',
    'C04': ' Bounds stored by the commands are evaluated under "the parameter is a time" (default-horizon resolution by None test is followed; a falsy-zero '
           'test is reported). TIME_CHANGED sites, wake-up order and the monotone clock are shared rules with C02/C03/C07.',
    'C05': ' The strategy consulted by the failure handler is discovered (field or field of a holder object); the setter must store its argument there on every '
           'accepted path; from the execution of an event (normal or failing) no pop_first() is reachable without a test of the run state; holder objects '
           'shared through a module-level default and changed in place are reported.',
    'C06': ' END_REPLICATION is announced last (states recorded first) also when the announcement goes through a signalling helper.',
    'C07': ' A pause may not lose or repeat an event (typestate rule shared with C02); memoised listener-list copies are accepted only with a proved upkeep (R8.1).',
    'C08': ' Delivery over a memoised copy of the listener list is accepted iff every store into the memo is the copy just made, every change of a listener list '
           'drops the entry before any notification, and stored copies are never changed in place; payload checks are located by evaluating their guards, not by nesting.',
    'C09': ' The NaN structure is extracted twice: for positive variance and for all-equal observations (mean, variance, stdev, confidence interval stay defined; '
           'skewness and kurtosis are NaN for every n).',
    'C10': ' register() of the time-weighted tally is compared with its specification case by case (active x {no observation yet, before, equal, after}) on path '
           'summaries (E10), independent of statement order; refusals inside called methods are discharged only when the abstract interpreter, in type-exact mode, '
           'cannot reach them from the same entry point.',
    'C11': ' Publication loops over a constant table of (event type, query) rows are unrolled before the publication rule is applied.',
    'C12': ' A caller-given seed is never replaced: every assignment that computes a seed is unreachable for seed 0 and for a non-zero seed (aliases included).',
    'C14': ' List-valued fields are abstracted by the hull of their elements; a container in a class body is reported only when some method changes it in place.',
    'C15': ' cdf/inverse compositions are evaluated through the locals on the return path; the Gamma acceptance step is bounded by a structural lemma on the '
           'definition DAG instead of a text-keyed axiom.',
    'C16': ' Signature combination is recognised in functional (map / zip) and imperative form (fresh copy + loop adding or subtracting exponents); combining into '
           'the operand\'s own list is reported. Comparisons are decided by cases (<, ==, >, unordered) so that a three-way helper by difference is accepted only with '
           'the equality guard that IEEE arithmetic requires (inf - inf).',
    'C17': ' Comparisons of compatible quantities are decided by cases as in C16; operators written as the negation of a sibling are expanded.',
    'C18': ' Stores into parameter objects count as effects for refuse-before-effect.',
}
for _p, _t in _ADD.items():
    META[_p]['text'] = META[_p]['text'] + _t

# ---- additions after rounds 7 and 8
_ADD2 = {
    'C01': ' Ordering operators of quantities (Duration event times) are decided by cases as in C16.',
    'C03': ' The heap discipline of the event list is a shared rule here (the horizon is decided from peek_first()); skipping the restore after a deletion is '
           'accepted only on a path that established that the deleted entry was the last one.',
    'C04': ' Start handshake: the flag the command thread waits for is raised by the worker only after START_EVENT was fired and STARTED recorded. A validating '
           'call that returned normally establishes the negation of its refusal guards for the rest of the path.',
    'C05': ' The wait / clear order of the worker wake-up is a shared rule here (a lost wake-up loses the resume).',
    'C06': ' Values memoised for the life of the object (cached_property, lru_cache) that are computed from fields re-bound later are reported.',
    'C07': ' Seeds depend on nothing but name, original seed / configured list and replication number (updater rules shared with C13; the current seed of a '
           'stream is not an admissible source); a pause may not lose an event; state shared through class-level objects or module-level defaults is reported first.',
    'C08': ' add_listener / remove_listener are interpreted over a finite abstraction of the subscription map (6 cases) and compared with their contracts; the '
           'payload checks know plain and None-filtered copies of the payload.',
    'C09': ' The recurrences of the third and fourth moment read the previous-step lower moments (def-use order).',
    'C11': ' Delivery to every subscriber (loop over a copy) is a shared rule here: statistics hear of warm-up and replication end only by being notified.',
    'C12': ' Seed wiring is decided on path summaries with self-calls walked in place; the generator also escapes as a bound method.',
    'C13': ' The table consulted by update_seed is the constructor argument itself; a memo keyed by (name, replication) is accepted only for values computed from the key alone.',
    'C14': ' Unbounded loops whose progress is a product of unit-interval draws must be certain to end once the product has underflowed to 0.0.',
    'C15': ' Samplers that are a closed form g(u) of one uniform satisfy pdf(g(u)) g\'(u) = +-1 identically (Exponential, Uniform, Weibull).',
    'C16': ' For a plain number, * and / act on the SI value through _val.',
    'C17': ' Tables built by a pure helper from a prefix table are folded to the constants they denote before the exhaustive table rules run; _val / as_unit are decided by cases on the arguments given.',
    'C18': ' extended_key() is built from the current parent; a memoised key is accepted only under a class-level token replaced at class level by every re-parenting.',
}
for _p, _t in _ADD2.items():
    META[_p]['text'] = META[_p]['text'] + _t

_ADD3 = {
    'C01': ' contains / remove are interpreted for the four cases of the entry state (list empty, event absent, event first, event later), helpers walked in place.',
    'C02': ' The horizon is what the replication reports: every time accessor of RunControl / Replication is evaluated over the constructor arguments and compared '
           'with start, start + warm-up period, start + run length. Clock comparisons on Duration clocks are the quantity-comparison rule of C16.',
    'C03': ' The replication end and the clock comparisons are shared rules (replication time frame; quantity comparisons of C16).',
    'C04': ' Delivery of every notification to every subscriber (loop over a copy of the list registered under the event type) is a shared rule with C08.',
    'C06': ' The running-guard of initialize is evaluated for STARTING as well as STARTED; the replication start the clock is reset to is the shared time-frame rule.',
    'C08': ' remove_all_listeners is interpreted over two event types and one listener (4 forms x 36 cases), loops over copies of the keys unrolled in registration order.',
    'C09': ' Minimum / maximum by induction over the entry state (empty after initialize / non-empty with a numeric extremum).',
    'C10': ' Minimum / maximum by induction over the entry state (empty after initialize / non-empty with a numeric extremum); an identity test with NaN decides nothing when false.',
    'C11': ' Warm-up time and replication end come from the replication time-frame rule; tables of (event type, getter) built by comprehensions are folded to the '
           'constants they denote, closures with the late binding Python gives them.',
    'C12': ' Streams handed out by the stream-information classes: no class-level, module-level or default-argument object is kept by or changed through an instance. '
           'The original seed is written by the constructor only, decided by cases of what a constructed stream holds.',
    'C13': ' The original seed is constructor-only (shared rule with C12).',
    'C15': ' State shared between distribution objects (class-level memo, default-argument object) is reported first; a pure per-object memo is removed before the numeric analysis.',
    'C16': ' A field compared as a whole with == / != (the SI signature) is bound to one kind of container everywhere.',
    'C18': ' Ordering methods made by a factory in the class body are instantiated before the order rule runs.',
}
for _p, _t in _ADD3.items():
    META[_p]['text'] = META[_p]['text'] + _t

_ADD4 = {
    'C01': ' A heap whose restore is deferred behind a flag is decided as a typestate (order holds or flag up; order required at every use). peek / pop and an id index '
           'kept beside the list are interpreted by cases together with contains / remove.',
    'C02': ' Direct calls of the float slot wrappers are the operations on the SI values; comparisons are also decided for one and the same object on both sides.',
    'C04': ' The event-list rules of C01 are shared (non-decreasing time-changed notifications rest on them).',
    'C05': ' The event-list rules of C01 are shared (the remaining events are executed in order after cancellations while paused).',
    'C06': ' The event-list rules of C01 are shared (clear() and the membership answers after it).',
    'C07': ' The private generator of a stream is its own also for copies: a bound method of it kept in a field must be re-bound by __setstate__ (shared with C12).',
    'C08': ' A generator of notify calls consumed by any / all / next is a delivery that stops early.',
    'C09': ' Memoised statistics: a stamp guard must fail after every change of what the memo was computed from (counter advanced, stamp or memo reset).',
    'C10': ' Memoised statistics: the stamp must be an integer counter, not a floating-point sum; sound stamp guards are removed before the numeric analysis.',
    'C11': ' The event-list rules of C01 are shared (the warm-up event precedes same-instant events only in a correctly ordered list).',
    'C12': ' Random(x) is creation plus seed(x); a bound method of the generator kept in a field is accepted only with a __setstate__ that re-binds it last.',
    'C13': ' A short-cut to the stock fallback\'s formula helper is accepted for the exact class only; under isinstance it by-passes overriding subclasses (R13.9).',
    'C14': ' The stream a distribution draws from has a generator of its own, also after copying (shared with C12).',
    'C15': ' erf_inv refuses |y| > 1 (decided by interpretation) and is an odd function (paired path summaries for y < 0 and y > 0).',
    'C16': ' Every input of a memoised (signature, unit) entry is part of its key.',
    'C17': ' Comparisons are also decided for one and the same object on both sides (NaN values).',
    'C18': ' get / remove are interpreted for dotted keys of 1-3 symbolic elements over every tree variant (bounded); results of cached functions are not changed in place.',
}
for _p, _t in _ADD4.items():
    META[_p]['text'] = META[_p]['text'] + _t

_ADD5 = {
    'C01': ' Heap entries written as a NamedTuple are read as plain tuples; asserts are dropped (python -O), so an effect hidden in one is missing.',
    'C04': ' The warm-up time and replication end come from the replication time-frame rule (R4.12).',
    'C05': ' Exception classes of the package do not render the objects they carry lazily (str(e) runs inside the error strategies).',
    'C06': ' A start command runs with its own bound and inclusiveness (horizon rule shared with C03).',
    'C07': ' A value buffered between draws is dropped on every path of a stream assignment (shared with C14).',
    'C08': ' match statements are compiled to tests and bindings (a mapping pattern is not a dict test).',
    'C09': ' Named thresholds (IntEnum) are folded to their numbers before the NaN-threshold table is extracted.',
    'C10': ' initialize() is followed through the methods it calls on self / super; no accumulator is reset after its first notification.',
    'C11': ' The event type a simulation statistic accepts without listen_to() is the type its notify() forwards observations as.',
    'C14': ' The stream rules of C12 are shared; buffered values are reset path-sensitively on stream assignment.',
    'C15': ' Helper Gamma distributions of composed samplers carry the parameters the transformation law requires (Pearson5, Erlang).',
    'C18': ' match statements in set_value are compiled to guard clauses before the type / range guards are compared with the constructor.',
}
for _p, _t in _ADD5.items():
    META[_p]['text'] = META[_p]['text'] + _t

_ADD6 = {
    'C01': ' Iteration over the list, any / all over it and handles that are equal copies of a pending event are cases of the event-list interpreter.',
    'C02': ' A test meant for plain numbers in front of a unit conversion must not accept the quantity classes (subclasses of float) (R2.10).',
    'C03': ' No listener is notified while a non-reentrant lock of the producer is held (delivery rule shared with C08).',
    'C04': ' A command that passed its refusals takes effect on every path (R4.13).',
    'C05': ' Notifications of new event types fired inside error handlers are well typed for everything the handler can catch.',
    'C06': ' Statistics register with the model under `is not None`, not under truthiness (shared with C11).',
    'C08': ' Every class that can be subscribed compares by identity (R8.9); no listener is called under a non-reentrant lock.',
    'C09': ' Whole-sequence checks (validation loop, any / all, converting comprehension) are element facts inside a later loop over the same sequence.',
    'C10': ' Fields of another instance (merge) lie in the class invariant; every writer of the variance accumulator is held to the convex-step shape.',
    'C11': ' Listener identity (R8.9) and model registration are shared with C08 / C06.',
    'C12': ' restore_state is interpreted on the contract value of Random.getstate(): no genuine saved state is refused (R12.15), the given state reaches setstate once.',
    'C14': ' No method reachable during construction renders `self` before the fields are complete (R14.10).',
    'C15': ' The stream rules of C12 are shared (default next_int / next_bool on the interface).',
    'C18': ' Declared bounds reach the stored fields unchanged for 0, -0.0, None, numbers and infinities (R18.14).',
}
for _p, _t in _ADD6.items():
    META[_p]['text'] = META[_p]['text'] + _t

_ADD7 = {
    'C04': ' The quantity comparisons behind the run-state guards on a Duration clock answer False for a NaN operand (comparison rule shared with C01-C03 / C16).',
    'C10': ' The simulation variants stamp a custom-type observation with the simulator clock and forward native events unchanged (dispatch rule shared with C11).',
    'C11': ' The dispatch rule follows locals and a re-wrapped event by substitution.',
    'C13': ' The generator a stream was seeded on is the one it draws from, also for a copy of the stream (private-generator rule shared with C07 / C12).',
    'C16': ' Every derivation of the unit text of a generic SI value uses the one format the parser reads back (R16.9, sibling agreement).',
}
for _p, _t in _ADD7.items():
    META[_p]['text'] = META[_p]['text'] + _t

_ADD8 = {
    'C05': ' A setting stored by a public set_<x>() method is written by that setter and the constructor only: cleanup / initialize do not reset the error strategy (R5.7).',
    'C07': ' A pause may not repeat a notification: the notification-shape rule of C04 / C06 is shared.',
    'C09': ' No container created in a class body of the statistics module is changed through instances, also through a field bound to it without a copy (R9.10).',
    'C10': ' Shared class state of the statistics module (R10.9).',
    'C11': ' Shared class state of the statistics module (R11.10); the comparisons of clock values decide the order of the warm-up reset and a model event of the same instant (rule shared with C01-C04 / C16).',
    'C14': ' For the counting distributions the analysed range of draw() must not exclude the support minimum, which carries probability mass (R14.5).',
    'C15': ' The support-minimum part of R14.5 is shared: a sampler that never returns 0 cannot follow probability(0) > 0.',
}
for _p, _t in _ADD8.items():
    META[_p]['text'] = META[_p]['text'] + _t

_ADD9 = {
    'C01': ' A store to the id counter outside the counter function is accepted only in the form that can only raise it (restoring pickled events).',
    'C03': ' The method that stores the bound and the inclusiveness of a run stores both on every accepting path (a piece of a split run does not inherit the flag of the piece before).',
    'C12': ' Writer / reader agreement of the pickled state: __setstate__ restores every field from the key __getstate__ saved it under (R12.16).',
    'C16': ' The operand of the guard cases is a quantity object: not of exact type float / int, but an instance of float.',
    'C18': ' An accepted value is stored on every accepting path of set_value (an equal value of another type, unit or sign of zero included).',
}
for _p, _t in _ADD9.items():
    META[_p]['text'] = META[_p]['text'] + _t
