"""Per-property MANIFEST metadata (consumed by tools/gen_manifest.py)."""

META = {}
NOT_APPLICABLE = {}


def _m(pid, technique, text, note, ref):
    META[pid] = {'technique': technique, 'text': text, 'note': note, 'design_ref': ref}


_m('C01',
   'representation-invariant check on the CFG (heap discipline), who-may-write, exhaustive guard evaluation of __cmp__',
   'Decides, from the source, that every mutation of the heap-backed list keeps or restores the heap invariant on every '
   'path, that the pushed key is (time, -priority, id) and readers use the same key, that key fields are immutable, ids '
   'strictly increase, the observers agree with the stored set, and that SimEvent comparisons are the lexicographic strict '
   'total order (all 27 orderings). By induction this covers every history; no execution is sampled.',
   'Trusts the documented heapq/list contracts; assumes event times are totally ordered (NaN excluded by C02); user-supplied '
   'event-list subclasses outside the package are not analysed.',
   'DESIGN.md §3 C01')


def finalize():
    for i in range(1, 19):
        pid = 'C%02d' % i
        if pid not in META and pid not in NOT_APPLICABLE:
            NOT_APPLICABLE[pid] = ('check not built yet (build in progress, DESIGN.md §8); the property will be claimed '
                                   'through its structural clauses once its rules are implemented')
