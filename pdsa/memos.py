"""Soundness of memoised values (shared by the normaliser and by the rules).

Two idioms are recognised on the syntax tree; everything is decided per class family on statement CFGs, nothing is executed.

Stamped memo      `if self.S != <SRC>: <refresh>`  with  `self.S = <SRC>` at the end of the refresh (in place or in a method of self).
                  The fields the refresh assigns besides S are the memo; what it reads are its dependencies.  The memo answers for the
                  current state only if every method that changes a dependency (or SRC) also makes the guard fail: on every normal
                  path through such a write there is
                    (a) an increment of SRC by a positive integer constant, SRC being a single integer counter field, or
                    (b) a reset of the stamp to a constant SRC never holds (None, a negative number), or
                    (c) a reset of the memo fields themselves (re-bound to an empty / constant value, or cleared).
                  A SRC that is changed by `+=` of anything but a positive integer constant is not a counter (a float sum need not
                  change when a small term is added); a SRC that is re-set (`self.n = 0`) makes old stamps valid again.

Keyed memo        `M[K] = V` with `M.get(K)` / `K in M` / `M[K]` in the same function, M a dict field or class-level dict.  Every
                  parameter (or `self`) that V is computed from must occur in K: two calls that differ only in an input missing from
                  the key would share one entry.  (Necessary, not sufficient: the rule does not know how much of an input matters.)
"""
from __future__ import annotations

import ast

from .cfg import CFG


def _txt(n):
    try:
        return ast.unparse(n)
    except Exception:
        return '<?>'


def _is_self_attr(n, name=None):
    return isinstance(n, ast.Attribute) and isinstance(n.value, ast.Name) and n.value.id == 'self' and (name is None or n.attr == name)


def _body(fn):
    b = fn.body
    if b and isinstance(b[0], ast.Expr) and isinstance(b[0].value, ast.Constant) and isinstance(b[0].value.value, str):
        return b[1:]
    return b


_ENCLOSING = {}


def _functions(tree):
    """(class name or None, FunctionDef) for every function, nested ones included (class = the enclosing class, if any)"""
    out = []

    def walk(node, cls, outer):
        for ch in ast.iter_child_nodes(node):
            if isinstance(ch, ast.ClassDef):
                walk(ch, ch.name, None)
            elif isinstance(ch, (ast.FunctionDef, ast.AsyncFunctionDef)):
                out.append((cls, ch))
                _ENCLOSING[id(ch)] = outer
                walk(ch, cls, ch)
            else:
                walk(ch, cls, outer)
    walk(tree, None, None)
    return out


def _reads_transitively(fn, fam, classes, seen=None):
    """fields of self read by fn and by the methods of self it calls (within the class family)"""
    seen = seen if seen is not None else set()
    if id(fn) in seen:
        return set()
    seen.add(id(fn))
    r = set()
    for x in _shallow(fn):
        if _is_self_attr(x) and isinstance(x.ctx, ast.Load):
            r.add(x.attr)
            for c in fam:
                for m in classes[c].body:
                    if isinstance(m, ast.FunctionDef) and m.name == x.attr:
                        r |= _reads_transitively(m, fam, classes, seen)
    return r


def _shallow(fn):
    """nodes of fn without entering nested functions / classes"""
    stack = list(fn.body)
    while stack:
        n = stack.pop()
        if isinstance(n, (ast.FunctionDef, ast.AsyncFunctionDef, ast.ClassDef, ast.Lambda)):
            continue
        yield n
        for ch in ast.iter_child_nodes(n):
            if not isinstance(ch, (ast.FunctionDef, ast.AsyncFunctionDef, ast.ClassDef, ast.Lambda)):
                stack.append(ch)


class StampedMemo:
    def __init__(self, stamp, src, src_fields, guard_fn, guard_cls, refresh_fns, value_fields, deps, guard_if):
        self.stamp, self.src, self.src_fields = stamp, src, src_fields
        self.guard_fn, self.guard_cls, self.refresh_fns = guard_fn, guard_cls, refresh_fns
        self.value_fields, self.deps, self.guard_if = value_fields, deps, guard_if      # deps None = everything the object holds


def _families(trees):
    classes = {c.name: c for t in trees.values() for c in t.body if isinstance(c, ast.ClassDef)}

    def bases(c):
        return [_txt(b).split('[')[0].split('.')[-1] for b in classes[c].bases if _txt(b).split('[')[0].split('.')[-1] in classes]

    def ancestors(c, seen=None):
        seen = seen if seen is not None else set()
        for b in bases(c):
            if b not in seen:
                seen.add(b)
                ancestors(b, seen)
        return seen
    anc = {c: ancestors(c) for c in classes}

    def family(c):
        fam = {c} | anc[c]
        fam |= {d for d in classes if c in anc[d]}
        return fam
    return classes, family


def find_stamped(trees):
    classes, family = _families(trees)
    memos = []
    for mname, tree in trees.items():
        for (cls, fn) in _functions(tree):
            for st in _shallow(fn):
                if not (isinstance(st, ast.If) and isinstance(st.test, ast.Compare) and len(st.test.ops) == 1
                        and isinstance(st.test.ops[0], (ast.NotEq, ast.IsNot, ast.Eq, ast.Is))):
                    continue
                l, r = st.test.left, st.test.comparators[0]
                for (s_, src) in ((l, r), (r, l)):
                    if not _is_self_attr(s_):
                        continue
                    src_fields = [x.attr for x in ast.walk(src) if _is_self_attr(x)]
                    if not src_fields or any(isinstance(x, ast.Call) for x in ast.walk(src)):
                        continue
                    block = st.body if isinstance(st.test.ops[0], (ast.NotEq, ast.IsNot)) else st.orelse
                    if not block:
                        continue
                    S = s_.attr
                    # the refresh: the block, plus the methods of self it calls as statements
                    refresh_stmts = list(block)
                    refresh_fns = []
                    owner = cls
                    if owner is None:
                        owners = [c for c, cd in classes.items() for m in cd.body if isinstance(m, ast.FunctionDef)
                                  for x in ast.walk(m) if isinstance(x, ast.Attribute) and isinstance(x.ctx, ast.Store) and _is_self_attr(x, S)]
                        owner = owners[0] if owners else None
                    if owner is None:
                        continue
                    fam = family(owner)
                    for b in block:
                        if isinstance(b, ast.Expr) and isinstance(b.value, ast.Call) and isinstance(b.value.func, ast.Attribute) and _txt(b.value.func.value) == 'self':
                            for c in fam:
                                for m in classes[c].body:
                                    if isinstance(m, ast.FunctionDef) and m.name == b.value.func.attr:
                                        refresh_fns.append(m)
                                        refresh_stmts += _body(m)
                    aliases = {_txt(src)}
                    for b in refresh_stmts:
                        for x in ast.walk(b):
                            if isinstance(x, (ast.Assign, ast.AnnAssign)) and getattr(x, 'value', None) is not None and _txt(x.value) == _txt(src):
                                for t in (x.targets if isinstance(x, ast.Assign) else [x.target]):
                                    if isinstance(t, ast.Name) and sum(1 for b2 in refresh_stmts for y in ast.walk(b2)
                                                                       if isinstance(y, ast.Name) and y.id == t.id and isinstance(y.ctx, ast.Store)) == 1:
                                        aliases.add(t.id)             # `m = self.n ... self.stamp = m`
                    sets_stamp = any(isinstance(x, (ast.Assign, ast.AnnAssign)) and getattr(x, 'value', None) is not None and _txt(x.value) in aliases
                                     and any(_is_self_attr(t, S) for t in (x.targets if isinstance(x, ast.Assign) else [x.target]))
                                     for b in refresh_stmts for x in ast.walk(b))
                    if not sets_stamp:
                        continue
                    value_fields, reads, opaque = set(), set(), False
                    for b in refresh_stmts:
                        for x in ast.walk(b):
                            if _is_self_attr(x) and isinstance(x.ctx, (ast.Store, ast.Del)) and x.attr != S:
                                value_fields.add(x.attr)
                            elif isinstance(x, ast.Call) and isinstance(x.func, ast.Attribute) and _is_self_attr(x.func.value) \
                                    and x.func.attr in ('clear', 'update', 'append', 'pop', 'setdefault'):
                                value_fields.add(x.func.value.attr)
                            elif isinstance(x, ast.Subscript) and isinstance(x.ctx, (ast.Store, ast.Del)) and _is_self_attr(x.value):
                                value_fields.add(x.value.attr)
                            elif _is_self_attr(x) and isinstance(x.ctx, ast.Load):
                                reads.add(x.attr)
                    # values stored into the memo fields outside the refresh (the wrapper fills a dict after the guard): computed from anything
                    for x in _shallow(fn):
                        if isinstance(x, ast.Subscript) and isinstance(x.ctx, ast.Store) and _is_self_attr(x.value) and x.value.attr in value_fields:
                            opaque = True
                    for b in refresh_stmts:
                        for x in ast.walk(b):
                            if isinstance(x, ast.Call) and not (_txt(x.func).startswith('math.') or _txt(x.func) in ('float', 'int', 'abs', 'min', 'max', 'len')
                                                                 or (isinstance(x.func, ast.Attribute) and _is_self_attr(x.func.value) and x.func.value.attr in value_fields)
                                                                 or (isinstance(x.func, ast.Attribute) and _txt(x.func.value) == 'self' and any(
                                                                     m.name == x.func.attr for m in refresh_fns))):
                                opaque = True
                    deps = None if opaque else (reads - value_fields - {S})
                    outer = _ENCLOSING.get(id(fn))
                    if deps is None and outer is not None and _ENCLOSING.get(id(outer)) is None and cls is None:
                        # the guard sits in the wrapper of a module-level decorator: the memo holds results of the decorated methods
                        decorated = [m for c in fam for m in classes[c].body if isinstance(m, ast.FunctionDef)
                                     and any(_txt(d).split('(')[0] == outer.name for d in m.decorator_list)]
                        if decorated:
                            deps = set()
                            for m in decorated:
                                deps |= _reads_transitively(m, fam, classes)
                            deps -= value_fields | {S}
                    memos.append(StampedMemo(S, src, src_fields, fn, owner, refresh_fns, value_fields, deps, st))
    return memos


def check_stamped(memo, trees):
    """-> [(class name, method FunctionDef, node, message)]"""
    classes, family = _families(trees)
    fam = family(memo.guard_cls)
    problems = []
    single_src = memo.src_fields[0] if len(memo.src_fields) == 1 and _is_self_attr(memo.src) else None
    # is SRC a counter?  every write in the family: `+= positive int constant`, or `= int constant`
    counter = single_src is not None
    why_not = ''
    resets = []
    for c in sorted(fam):
        for m in classes[c].body:
            if not isinstance(m, ast.FunctionDef):
                continue
            for x in _shallow(m):
                if isinstance(x, ast.AugAssign) and _is_self_attr(x.target) and x.target.attr in memo.src_fields:
                    good = isinstance(x.op, ast.Add) and isinstance(x.value, ast.Constant) and isinstance(x.value.value, int) and not isinstance(x.value.value, bool) \
                        and x.value.value > 0
                    if not good:
                        counter = False
                        why_not = (f'`{_txt(x)}` in {c}.{m.name} need not change its value (adding a term that is small against a floating-point sum '
                                              f'leaves the sum as it was), so a stamp taken from it can stay valid although the state moved on')
                elif isinstance(x, (ast.Assign, ast.AnnAssign)) and getattr(x, 'value', None) is not None and any(
                        _is_self_attr(t) and t.attr in memo.src_fields for t in (x.targets if isinstance(x, ast.Assign) else [x.target])):
                    if isinstance(x.value, ast.Constant) and isinstance(x.value.value, int) and not isinstance(x.value.value, bool) and x.value.value >= 0:
                        resets.append((c, m, x))
                    elif isinstance(x.value, ast.Constant) and isinstance(x.value.value, (int, float)) and not isinstance(x.value.value, bool) and x.value.value >= 0:
                        resets.append((c, m, x))
                    elif m.name != '__init__':
                        counter = False
                        why_not = why_not or f'`{_txt(x)[:60]}` in {c}.{m.name} gives it an arbitrary value'
    skip = {id(memo.guard_fn)} | {id(f) for f in memo.refresh_fns}
    for c in sorted(fam):
        for m in classes[c].body:
            if not isinstance(m, ast.FunctionDef) or id(m) in skip:
                continue
            g = None
            writes, invalid = [], []
            reset_fields = set()
            for x in _shallow(m):
                fld = None
                if _is_self_attr(x) and isinstance(x.ctx, (ast.Store, ast.Del)):
                    fld = x.attr
                elif isinstance(x, ast.Subscript) and isinstance(x.ctx, (ast.Store, ast.Del)) and _is_self_attr(x.value):
                    fld = x.value.attr
                elif isinstance(x, ast.Call) and isinstance(x.func, ast.Attribute) and _is_self_attr(x.func.value) and x.func.attr in (
                        'append', 'extend', 'insert', 'remove', 'pop', 'clear', 'update', 'setdefault', 'add', 'discard', 'popitem', 'sort', 'reverse'):
                    fld = x.func.value.attr
                if fld is None:
                    continue
                if fld == memo.stamp:
                    continue
                if fld in memo.value_fields:
                    continue
                if memo.deps is None or fld in memo.deps or fld in memo.src_fields:
                    writes.append(x)
            if not writes:
                continue
            g = CFG(m)

            def node_of(x):
                for nd in g.stmt_nodes():
                    if nd.ast is not None and any(y is x for y in ast.walk(nd.ast)):
                        return nd
                return None
            for x in _shallow(m):
                # (a) the counter advances
                if counter and isinstance(x, ast.AugAssign) and _is_self_attr(x.target, single_src):
                    invalid.append(node_of(x))
                # (b) the stamp is reset to a value SRC never holds
                if isinstance(x, (ast.Assign, ast.AnnAssign)) and getattr(x, 'value', None) is not None and any(
                        _is_self_attr(t, memo.stamp) for t in (x.targets if isinstance(x, ast.Assign) else [x.target])):
                    v = x.value
                    neg = isinstance(v, ast.UnaryOp) and isinstance(v.op, ast.USub) and isinstance(v.operand, ast.Constant)
                    none = isinstance(v, ast.Constant) and v.value is None
                    if (neg and counter) or none:
                        invalid.append(node_of(x))
                # (c) the memo itself is reset
                if isinstance(x, (ast.Assign, ast.AnnAssign)) and getattr(x, 'value', None) is not None:
                    for t in (x.targets if isinstance(x, ast.Assign) else [x.target]):
                        if _is_self_attr(t) and t.attr in memo.value_fields and not any(_is_self_attr(y) for y in ast.walk(x.value)):
                            reset_fields.add(t.attr)
                            invalid.append(('reset', t.attr, node_of(x)))
                if isinstance(x, ast.Call) and isinstance(x.func, ast.Attribute) and x.func.attr == 'clear' and _is_self_attr(x.func.value) \
                        and x.func.value.attr in memo.value_fields:
                    reset_fields.add(x.func.value.attr)
                    invalid.append(('reset', x.func.value.attr, node_of(x)))
            inv_nodes = [i for i in invalid if i is not None and not isinstance(i, tuple)]
            if reset_fields >= memo.value_fields and memo.value_fields:
                inv_nodes += [i[2] for i in invalid if isinstance(i, tuple) and i[2] is not None]
            NORMAL = ('exc', 'raise', 'reraise')
            for x in writes:
                w = node_of(x)
                if w is None or w in inv_nodes:
                    continue
                to_w = w is g.entry or g.reaches(g.entry, w, avoid=inv_nodes, labels_excluded=NORMAL)
                from_w = g.reaches(w, g.exit, avoid=inv_nodes, labels_excluded=NORMAL)
                if to_w and from_w:
                    what = f'`{_txt(x)[:50]}`'
                    fld = x.attr if isinstance(x, ast.Attribute) else (x.value.attr if isinstance(x, ast.Subscript) else x.func.value.attr)
                    if not counter and fld in memo.src_fields + [f for f in (memo.deps or [])] and why_not:
                        msg = (f'the memo {sorted(memo.value_fields)} is taken as valid while `self.{memo.stamp} == {_txt(memo.src)}`, but {_txt(memo.src)} is not a '
                               f'counter: {why_not}')
                    else:
                        msg = (f'{c}.{m.name} changes {what} -- state the memo {sorted(memo.value_fields)} (valid while `self.{memo.stamp} == {_txt(memo.src)}`) was '
                               f'computed from -- on a path that neither advances {_txt(memo.src)} by a positive integer nor resets the stamp / the memo: afterwards '
                               f'the stamp can match again and the memo answers for the old state')
                    problems.append((c, m, x, msg))
                    break
    return problems


# ------------------------------------------------------------------------------------------------ keyed memos
def keyed_memo_problems(tree):
    """-> [(class or None, fn, store stmt, memo text, missing input names)]"""
    out = []
    for (cls, fn) in _functions(tree):
        params = [a.arg for a in fn.args.posonlyargs + fn.args.args + fn.args.kwonlyargs]
        if not params:
            continue
        assigns = {}
        for x in _shallow(fn):
            if isinstance(x, (ast.Assign, ast.AnnAssign)) and getattr(x, 'value', None) is not None:
                for t in (x.targets if isinstance(x, ast.Assign) else [x.target]):
                    if isinstance(t, ast.Name):
                        assigns.setdefault(t.id, []).append(x.value)

        def inputs(e, seen=()):
            """parameters the expression is computed from (through locals)"""
            r = set()
            for y in ast.walk(e):
                if isinstance(y, ast.Name) and isinstance(y.ctx, ast.Load):
                    if y.id in params:
                        r.add(y.id)
                    elif y.id in assigns and y.id not in seen:
                        for v in assigns[y.id]:
                            r |= inputs(v, seen + (y.id,))
            return r
        for x in _shallow(fn):
            if not (isinstance(x, ast.Assign) and len(x.targets) == 1 and isinstance(x.targets[0], ast.Subscript)):
                continue
            tgt = x.targets[0]
            M = tgt.value
            if not (isinstance(M, ast.Attribute) and isinstance(M.value, ast.Name)):
                continue
            mt = _txt(M)
            ktxt = _txt(tgt.slice)
            # the same function looks the key up in the same container: a memo
            looked = False
            for y in _shallow(fn):
                if isinstance(y, ast.Call) and isinstance(y.func, ast.Attribute) and y.func.attr == 'get' and _txt(y.func.value) == mt and y.args and _txt(y.args[0]) == ktxt:
                    looked = True
                elif isinstance(y, ast.Compare) and len(y.ops) == 1 and isinstance(y.ops[0], (ast.In, ast.NotIn)) and _txt(y.comparators[0]) == mt and _txt(y.left) == ktxt:
                    looked = True
                elif isinstance(y, ast.Subscript) and isinstance(y.ctx, ast.Load) and _txt(y.value) == mt and _txt(y.slice) == ktxt:
                    looked = True
            if not looked:
                continue
            need = inputs(x.value)
            have = inputs(tgt.slice)
            if M.value.id == 'self':
                have = have | {'self'}                     # the memo is the object's own
            missing = sorted(need - have)
            if missing:
                out.append((cls, fn, x, mt, missing))
    return out


# ------------------------------------------------------------------------------------------------ cached functions
CACHE_DECOS = ('lru_cache', 'functools.lru_cache', 'cache', 'functools.cache')
_MUTATORS = ('append', 'extend', 'insert', 'remove', 'pop', 'clear', 'sort', 'reverse', 'update', 'setdefault', 'popitem', 'add', 'discard')


def cached_mutable_results(tree):
    """A function under lru_cache / cache hands the SAME object to every caller that passes equal arguments.  -> [(cached fn, caller fn,
    mutating node, text)] for results that are lists / dicts / sets and are changed in place by a caller."""
    cached = {}
    for (cls, fn) in _functions(tree):
        decos = [_txt(d.func) if isinstance(d, ast.Call) else _txt(d) for d in fn.decorator_list]
        if any(d in CACHE_DECOS for d in decos):
            kinds = set()
            for x in _shallow(fn):
                if isinstance(x, ast.Return) and x.value is not None:
                    v = x.value
                    if isinstance(v, (ast.List, ast.ListComp, ast.Dict, ast.DictComp, ast.Set, ast.SetComp)):
                        kinds.add('mutable')
                    elif isinstance(v, ast.Call) and (_txt(v.func) in ('list', 'dict', 'set', 'sorted') or (isinstance(v.func, ast.Attribute) and v.func.attr in (
                            'split', 'rsplit', 'splitlines', 'copy', 'keys', 'values', 'items'))):
                        kinds.add('mutable')
                    elif isinstance(v, ast.Call) and _txt(v.func) in ('tuple', 'frozenset', 'str', 'int', 'float') or isinstance(v, (ast.Tuple, ast.Constant)):
                        kinds.add('immutable')
                    else:
                        kinds.add('unknown')
            if 'mutable' in kinds:
                cached[fn.name] = fn
    out = []
    if not cached:
        return out
    for (cls, fn) in _functions(tree):
        held = {}
        for x in _shallow(fn):
            if isinstance(x, (ast.Assign, ast.AnnAssign)) and isinstance(getattr(x, 'value', None), ast.Call):
                f = x.value.func
                name = f.id if isinstance(f, ast.Name) else (f.attr if isinstance(f, ast.Attribute) else None)
                if name in cached:
                    for t in (x.targets if isinstance(x, ast.Assign) else [x.target]):
                        if isinstance(t, ast.Name):
                            held[t.id] = name
        for x in _shallow(fn):
            tgt = None
            if isinstance(x, ast.Call) and isinstance(x.func, ast.Attribute) and x.func.attr in _MUTATORS:
                b = x.func.value
                if isinstance(b, ast.Name) and b.id in held:
                    tgt = held[b.id]
                elif isinstance(b, ast.Call) and ((isinstance(b.func, ast.Name) and b.func.id in cached) or (isinstance(b.func, ast.Attribute) and b.func.attr in cached)):
                    tgt = b.func.id if isinstance(b.func, ast.Name) else b.func.attr
            elif isinstance(x, ast.Subscript) and isinstance(x.ctx, (ast.Store, ast.Del)) and isinstance(x.value, ast.Name) and x.value.id in held:
                tgt = held[x.value.id]
            if tgt is not None:
                out.append((cached[tgt], fn, x, _txt(x)))
    return out
