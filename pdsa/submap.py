"""E11 -- abstract interpretation of the subscription map (`dict: event type -> list of listeners`) for ONE key K and ONE listener x.

Finite abstract domain.  The map either has K or not; a list is abstracted by
    xc    number of occurrences of x in it        0 | 1 | 2 (two or more)
    oc    other listeners in it                   '0' | '1+'
    xpos  where the (first) x stands              'first' | 'later' | 'last' | None   ('last' = after all others, set by append)
Operations that would reorder the others (sort, reverse, insert at a position) are outside the domain (Unsupported: the caller
falls back to its syntactic rule).  A method body is interpreted for each initial case; every condition is decided in this domain
(the cases are complete), so there is no path explosion; `list.index` / `list.remove` of an absent element raise ValueError and
`d[k]` / `del d[k]` of an absent key raise KeyError, caught by matching handlers.  Helper methods called on self are interpreted in
place.  Nothing of the analysed program is executed: the interpreter manipulates these abstract descriptions only.
"""
from __future__ import annotations

import ast

from .core import body_of, is_self_attr, unparse


class Unsupported(Exception):
    pass


class _Raise(Exception):
    def __init__(self, kind):
        self.kind = kind


class _Return(Exception):
    def __init__(self, value):
        self.value = value


class L:
    """abstract list"""
    __slots__ = ('xc', 'oc', 'xpos', 'registered')

    def __init__(self, xc=0, oc='0', xpos=None, registered=False):
        self.xc, self.oc, self.xpos, self.registered = xc, oc, xpos, registered

    def copy(self):
        return L(self.xc, self.oc, self.xpos, False)

    def key(self):
        return (self.xc, self.oc, self.xpos)

    def __repr__(self):
        return f'list(x*{self.xc}, others {self.oc}, x {self.xpos})'


NONE = ('none',)
X = ('x',)
K = ('K',)
K2 = ('K2',)               # a second event type, registered (if at all) before K: iteration over the map meets it first
OTHER = ('other',)         # some other object (another key, another listener): equal to nothing tracked
UBOOL = ('ubool',)         # a test the domain cannot decide (callable(x)); only usable where the other operands of and / or decide the result


class _Break(Exception):
    pass


class _Continue(Exception):
    pass


class Interp:
    def __init__(self, prog, cls, F, key_param, lis_param, has_key, lst, memo_fields=()):
        self.prog, self.cls, self.F = prog, cls, F
        self.kp, self.lp = key_param, lis_param
        self.m = {K: [has_key, lst], K2: [False, None]}      # key -> [the map has the key, the list registered under it (L) or None]
        if lst is not None:
            lst.registered = True
        self.memo = set(memo_fields)
        self.depth = 0

    # the single-key view used by the add / remove contracts
    @property
    def has(self):
        return self.m[K][0]

    @property
    def lst(self):
        return self.m[K][1]

    def set_second(self, has_key, lst):
        self.m[K2] = [has_key, lst]
        if lst is not None:
            lst.registered = True

    def _key(self, k, what):
        if k in (K, K2):
            return k
        raise Unsupported(f'{what} another key')

    def _drop(self, k):
        if self.m[k][1] is not None:
            self.m[k][1].registered = False
        self.m[k] = [False, None]

    def _present(self):
        return [k for k in (K2, K) if self.m[k][0]]

    # ------------------------------------------------------------------ statements
    def run(self, fn, args=None):
        env = dict(args or {})
        try:
            self.block(body_of(fn), env)
        except _Return as r:
            return ('return', r.value)
        except _Raise as e:
            return ('raise', e.kind)
        return ('return', NONE)

    def block(self, stmts, env):
        for st in stmts:
            self.stmt(st, env)

    def stmt(self, st, env):
        if isinstance(st, ast.Expr):
            if isinstance(st.value, ast.Constant):
                return
            self.ev(st.value, env)
            return
        if isinstance(st, ast.Pass):
            return
        if isinstance(st, ast.Return):
            raise _Return(self.ev(st.value, env) if st.value is not None else NONE)
        if isinstance(st, ast.Raise):
            raise _Raise(unparse(st.exc.func) if isinstance(st.exc, ast.Call) else (unparse(st.exc) if st.exc is not None else 're-raise'))
        if isinstance(st, ast.If):
            t = self.truth(self.ev(st.test, env))
            self.block(st.body if t else st.orelse, env)
            return
        if isinstance(st, (ast.Assign, ast.AnnAssign)):
            if getattr(st, 'value', None) is None:
                return
            v = self.ev(st.value, env)
            for t in (st.targets if isinstance(st, ast.Assign) else [st.target]):
                self.assign(t, v, env)
            return
        if isinstance(st, ast.Delete):
            for t in st.targets:
                self.delete(t, env)
            return
        if isinstance(st, ast.Try):
            try:
                self.block(st.body, env)
            except _Raise as e:
                for h in st.handlers:
                    names = [] if h.type is None else [unparse(x) for x in (h.type.elts if isinstance(h.type, ast.Tuple) else [h.type])]
                    if h.type is None or e.kind in names or 'Exception' in names or 'BaseException' in names or \
                            (e.kind in ('KeyError', 'IndexError') and 'LookupError' in names):
                        self.block(h.body, env)
                        break
                else:
                    if st.finalbody:
                        self.block(st.finalbody, env)
                    raise
            else:
                self.block(st.orelse, env)
            if st.finalbody:
                self.block(st.finalbody, env)
            return
        if isinstance(st, ast.Assert):
            return
        if isinstance(st, ast.Break):
            raise _Break()
        if isinstance(st, ast.Continue):
            raise _Continue()
        if isinstance(st, ast.For) and not st.orelse:
            it = self.ev(st.iter, env)
            live = False
            if it in (('dict',), ('keys',)):
                it, live = ('keyseq', self._present()), True
            elif it == ('items',):
                it, live = ('itemseq', [(k, self.m[k][1]) for k in self._present()]), True
            if not (isinstance(it, tuple) and it[0] in ('keyseq', 'itemseq')):
                raise Unsupported('loop over something else than the keys / items of the map')
            for el in it[1]:
                before = self._present()
                self.assign(st.target, el if it[0] == 'keyseq' else ('tuple', list(el)), env)
                try:
                    self.block(st.body, env)
                except _Continue:
                    pass
                except _Break:
                    break
                if live and self._present() != before:
                    raise _Raise('RuntimeError')          # dictionary changed size during iteration
            return
        raise Unsupported(f'{type(st).__name__} statement')

    def assign(self, t, v, env):
        if isinstance(t, ast.Name):
            env[t.id] = v
            return
        if isinstance(t, (ast.Tuple, ast.List)):
            if not (isinstance(v, tuple) and v and v[0] == 'tuple' and len(v[1]) == len(t.elts)):
                raise Unsupported('unpacking of a non-tuple')
            for a, b in zip(t.elts, v[1]):
                self.assign(a, b, env)
            return
        if isinstance(t, ast.Subscript) and is_self_attr(t.value, self.F):
            k = self._key(self.ev(t.slice, env), 'store under')
            if not isinstance(v, L):
                raise Unsupported('a non-list stored in the map')
            self._drop(k)
            self.m[k] = [True, v]
            v.registered = True
            return
        if is_self_attr(t, self.F):
            if v != ('newdict',):
                raise Unsupported('the map is re-bound to something else than an empty dict')
            self._drop(K)
            self._drop(K2)
            return
        if isinstance(t, ast.Subscript) and is_self_attr(t.value) and t.value.attr in self.memo:
            return
        if is_self_attr(t) and t.attr in self.memo:
            return
        raise Unsupported(f'assignment to `{unparse(t)}`')

    def delete(self, t, env):
        if isinstance(t, ast.Subscript):
            base = self.ev(t.value, env)
            if base == ('dict',):
                k = self._key(self.ev(t.slice, env), 'delete of')
                if not self.m[k][0]:
                    raise _Raise('KeyError')
                self._drop(k)
                return
            if isinstance(base, L):
                i = self.ev(t.slice, env)
                if i == ('idx', 'x'):
                    self._remove_x(base)
                    return
                raise Unsupported('delete of an unknown position')
            if base == ('memo',):
                return
        raise Unsupported(f'del `{unparse(t)}`')

    def _remove_x(self, lst):
        """one occurrence of x leaves the list (the first one)"""
        if lst.xc == 0:
            raise _Raise('ValueError')
        lst.xc -= 1               # from "two or more" this says "one (or more)": a remaining duplicate is reported by the caller's post-condition either way
        if lst.xc == 0:
            lst.xpos = None

    # ------------------------------------------------------------------ expressions
    def truth(self, v):
        if v == NONE:
            return False
        if v == UBOOL:
            raise Unsupported('a test the subscription-map domain does not decide (callable(..))')
        if isinstance(v, tuple) and v[0] == 'bool':
            return v[1]
        if isinstance(v, L):
            return v.xc > 0 or v.oc != '0'
        if isinstance(v, tuple) and v[0] == 'int' and isinstance(v[1], int):
            return v[1] != 0
        if v == ('idx', 'x'):
            raise Unsupported('truth of a position')
        if v in (X, K, K2, OTHER):
            return True
        if v == ('dict',):
            return bool(self._present())
        raise Unsupported(f'truth of {v}')

    def ev(self, e, env):
        if isinstance(e, ast.Constant):
            if e.value is None:
                return NONE
            if isinstance(e.value, bool):
                return ('bool', e.value)
            if isinstance(e.value, int):
                return ('int', e.value)
            return OTHER
        if isinstance(e, ast.UnaryOp) and isinstance(e.op, ast.USub) and isinstance(e.operand, ast.Constant) and isinstance(e.operand.value, int):
            return ('int', -e.operand.value)
        if isinstance(e, ast.UnaryOp) and isinstance(e.op, ast.Not):
            v_ = self.ev(e.operand, env)
            return UBOOL if v_ == UBOOL else ('bool', not self.truth(v_))
        if isinstance(e, ast.Name):
            if e.id in env:
                return env[e.id]
            if e.id == self.kp:
                return K
            if e.id == self.lp:
                return X
            return OTHER
        if isinstance(e, ast.Tuple):
            return ('tuple', [self.ev(x, env) for x in e.elts])
        if isinstance(e, ast.Dict) and not e.keys:
            return ('newdict',)
        if isinstance(e, ast.List):
            if not e.elts:
                return L()
            vals = [self.ev(x, env) for x in e.elts]
            if all(v == X for v in vals):
                return L(xc=min(len(vals), 2), oc='0', xpos='first')
            raise Unsupported('list display with other elements')
        if isinstance(e, ast.BoolOp):
            is_and = isinstance(e.op, ast.And)
            v = None
            undecided = False
            for x in e.values:
                v = self.ev(x, env)
                if v == UBOOL:
                    undecided = True          # the operands here are tests without effects: a later operand that decides the result decides it
                    continue
                t = self.truth(v)
                if t != is_and:
                    return ('bool', t) if undecided else v
            return UBOOL if undecided else v
        if isinstance(e, ast.IfExp):
            return self.ev(e.body if self.truth(self.ev(e.test, env)) else e.orelse, env)
        if isinstance(e, ast.Attribute):
            if is_self_attr(e, self.F):
                return ('dict',)
            if is_self_attr(e) and e.attr in self.memo:
                return ('memo',)
            return OTHER
        if isinstance(e, ast.Subscript):
            base = self.ev(e.value, env)
            if base == ('dict',):
                k = self._key(self.ev(e.slice, env), 'lookup of')
                if not self.m[k][0]:
                    raise _Raise('KeyError')
                return self.m[k][1]
            if isinstance(base, tuple) and base[0] == 'tuple' and isinstance(e.slice, ast.Constant) and isinstance(e.slice.value, int):
                return base[1][e.slice.value]
            if isinstance(base, L) and isinstance(e.slice, ast.Slice) and e.slice.lower is None and e.slice.upper is None and e.slice.step is None:
                return base.copy()
            raise Unsupported(f'subscript `{unparse(e)}`')
        if isinstance(e, ast.Compare) and len(e.ops) == 1:
            return self.compare(e, env)
        if isinstance(e, ast.BinOp) and isinstance(e.op, ast.Add):
            a, b = self.ev(e.left, env), self.ev(e.right, env)
            if isinstance(a, L) and isinstance(b, L):
                if b.oc != '0':
                    raise Unsupported('concatenation with other elements')
                r = a.copy()
                for _ in range(b.xc):
                    self._append_x(r)
                return r
            raise Unsupported('addition')
        if isinstance(e, ast.Call):
            return self.call(e, env)
        if isinstance(e, ast.JoinedStr):
            return OTHER
        raise Unsupported(f'expression `{unparse(e)[:40]}`')

    def _append_x(self, lst):
        if lst.xc == 0:
            lst.xpos = 'last' if lst.oc != '0' else 'first'
        lst.xc = min(lst.xc + 1, 2)

    def compare(self, e, env):
        op = e.ops[0]
        a, b = self.ev(e.left, env), self.ev(e.comparators[0], env)
        if isinstance(op, (ast.In, ast.NotIn)):
            if b == ('dict',) or b == ('keys',):
                r = self.m[self._key(a, 'membership of')][0]
            elif isinstance(b, L):
                if a != X:
                    raise Unsupported('membership of another listener')
                r = b.xc > 0
            elif b == ('memo',):
                raise Unsupported('membership in the memo')
            else:
                raise Unsupported('membership in an unknown container')
            return ('bool', r if isinstance(op, ast.In) else not r)
        if isinstance(op, (ast.Is, ast.IsNot, ast.Eq, ast.NotEq)) and (a == NONE or b == NONE):
            r = a == b
            return ('bool', r if isinstance(op, (ast.Is, ast.Eq)) else not r)
        # integers: lengths and positions
        def num(v):
            if isinstance(v, tuple) and v[0] == 'int':
                return v[1]
            return None
        na, nb = num(a), num(b)
        if a == ('idx', 'x') or b == ('idx', 'x'):
            # position of x: >= 0 always; > 0 iff not first
            pos, other, flip = (a, nb, False) if a == ('idx', 'x') else (b, na, True)
            lst = self._idx_list
            if other is None or lst is None:
                raise Unsupported('position compared with something unknown')
            first = lst.xpos == 'first'
            if lst.xpos is None:
                raise Unsupported('position of an absent listener')
            lo = 0 if first else 1           # the position is exactly 0 (first) or at least 1
            def rel(o):
                # truth of (pos o other) when decidable
                if first:
                    return {ast.Lt: 0 < other, ast.LtE: 0 <= other, ast.Gt: 0 > other, ast.GtE: 0 >= other, ast.Eq: 0 == other, ast.NotEq: 0 != other}[type(o)]
                if other <= 0:
                    return {ast.Lt: False, ast.LtE: False, ast.Gt: True, ast.GtE: True, ast.Eq: False, ast.NotEq: True}[type(o)]
                if other == 1 and isinstance(o, (ast.GtE, ast.Lt)):
                    return isinstance(o, ast.GtE)
                raise Unsupported('position compared with a positive number')
            INV = {ast.Lt: ast.Gt, ast.Gt: ast.Lt, ast.LtE: ast.GtE, ast.GtE: ast.LtE, ast.Eq: ast.Eq, ast.NotEq: ast.NotEq}
            o2 = op if not flip else INV[type(op)]()
            return ('bool', rel(o2))
        if isinstance(na, str) or isinstance(nb, str):
            # 'len:<xc>:<oc>' lengths
            ln, other, flip = (na, nb, False) if isinstance(na, str) else (nb, na, True)
            if not isinstance(other, int):
                raise Unsupported('length compared with something unknown')
            _t, xc, oc = ln.split(':')
            xc = int(xc)
            lo = xc + (0 if oc == '0' else 1)
            exact = oc == '0' and xc < 2
            INV = {ast.Lt: ast.Gt, ast.Gt: ast.Lt, ast.LtE: ast.GtE, ast.GtE: ast.LtE, ast.Eq: ast.Eq, ast.NotEq: ast.NotEq}
            o2 = op if not flip else INV[type(op)]()
            if exact:
                return ('bool', {ast.Lt: lo < other, ast.LtE: lo <= other, ast.Gt: lo > other, ast.GtE: lo >= other, ast.Eq: lo == other, ast.NotEq: lo != other}[type(o2)])
            # length is >= lo
            if isinstance(o2, (ast.Gt,)) and other < lo:
                return ('bool', True)
            if isinstance(o2, (ast.GtE,)) and other <= lo:
                return ('bool', True)
            if isinstance(o2, (ast.Eq,)) and other < lo:
                return ('bool', False)
            if isinstance(o2, (ast.NotEq,)) and other < lo:
                return ('bool', True)
            if isinstance(o2, (ast.Lt,)) and other <= lo:
                return ('bool', False)
            if isinstance(o2, (ast.LtE,)) and other < lo:
                return ('bool', False)
            raise Unsupported('length not decided')
        if isinstance(na, int) and isinstance(nb, int):
            return ('bool', {ast.Lt: na < nb, ast.LtE: na <= nb, ast.Gt: na > nb, ast.GtE: na >= nb, ast.Eq: na == nb, ast.NotEq: na != nb,
                             ast.Is: na == nb, ast.IsNot: na != nb}[type(op)])
        if isinstance(op, (ast.Is, ast.IsNot)) and isinstance(a, L) and isinstance(b, L):
            return ('bool', (a is b) if isinstance(op, ast.Is) else (a is not b))
        raise Unsupported(f'comparison `{unparse(e)[:40]}`')

    _idx_list = None

    def call(self, e, env):
        f = e.func
        ft = unparse(f)
        if ft == 'isinstance':
            # the arguments of the analysed call are of the documented types -- or None where the method allows it; the tracked listener is an
            # EventListener and the tracked keys are EventTypes: neither is a class, a string, a number or a container
            v_ = self.ev(e.args[0], env) if e.args else None
            if v_ == NONE:
                return ('bool', False)
            if len(e.args) == 2 and v_ in (X, K, K2):
                tn = {unparse(t).split('.')[-1] for t in (e.args[1].elts if isinstance(e.args[1], ast.Tuple) else [e.args[1]])}
                own = 'EventListener' if v_ == X else 'EventType'
                foreign = {'type', 'str', 'int', 'float', 'bool', 'bytes', 'dict', 'list', 'tuple', 'set', 'frozenset', 'EventType', 'EventListener'} - {own}
                if own not in tn and tn <= foreign:
                    return ('bool', False)
            return ('bool', True)
        if ft == 'callable' and len(e.args) == 1:
            return ('bool', False) if self.ev(e.args[0], env) == NONE else UBOOL
        if ft == 'len' and len(e.args) == 1:
            v = self.ev(e.args[0], env)
            if isinstance(v, L):
                return ('int', f'len:{v.xc}:{v.oc}')
            raise Unsupported('len of something else')
        if ft in ('list', 'tuple') and len(e.args) == 1:
            v = self.ev(e.args[0], env)
            if isinstance(v, L):
                return v.copy()
            if v in (('dict',), ('keys',)):
                return ('keyseq', self._present())                   # a snapshot of the keys, in registration order
            if v == ('items',):
                return ('itemseq', [(k, self.m[k][1]) for k in self._present()])
            if isinstance(v, tuple) and v and v[0] in ('keyseq', 'itemseq'):
                return v
            raise Unsupported('list() of something else')
        if ft == 'dict' and not e.args and not e.keywords:
            return ('newdict',)
        if ft in ('logger.debug', 'logger.info', 'logger.warning', 'print'):
            return NONE
        if isinstance(f, ast.Attribute):
            recv = f.value
            m = f.attr
            # helper methods of the same object
            if isinstance(recv, ast.Name) and recv.id == 'self':
                if m in ('fire', 'fire_event', 'fire_timed', 'fire_timed_event'):
                    raise Unsupported('notification inside the analysed method')
                ci, fn2 = self.prog.resolve(self.cls, m)
                if ci is not None and m in getattr(ci, '_pdsa_orig_methods', {}):
                    fn2 = ci._pdsa_orig_methods[m]            # the method as written, before any matching-form rewrite
                if fn2 is None or self.depth >= 3:
                    raise Unsupported(f'call of self.{m}')
                params = [a.arg for a in (fn2.args.args if any(unparse(d) == 'staticmethod' for d in fn2.decorator_list) else fn2.args.args[1:])]
                if e.keywords or len(e.args) != len(params):
                    raise Unsupported(f'call of self.{m} with defaults / keywords')
                vals = [self.ev(a, env) for a in e.args]
                sub = Interp.__new__(Interp)
                sub.__dict__.update(self.__dict__)
                # the callee sees K and x under its own parameter names through its environment
                env2 = dict(zip(params, vals))
                saved = (self.kp, self.lp)
                self.depth += 1
                try:
                    self.kp, self.lp = None, None
                    try:
                        self.block(body_of(fn2), env2)
                        r = NONE
                    except _Return as rr:
                        r = rr.value
                finally:
                    self.kp, self.lp = saved
                    self.depth -= 1
                return r
            rv = self.ev(recv, env)
            args = [self.ev(a, env) for a in e.args]
            if rv == ('dict',):
                if m == 'get' and args and args[0] in (K, K2):
                    if self.m[args[0]][0]:
                        return self.m[args[0]][1]
                    return args[1] if len(args) > 1 else NONE
                if m == 'setdefault' and len(args) == 2 and args[0] in (K, K2) and isinstance(args[1], L):
                    if not self.m[args[0]][0]:
                        self.m[args[0]] = [True, args[1]]
                        args[1].registered = True
                    return self.m[args[0]][1]
                if m == 'pop' and args and args[0] in (K, K2):
                    if not self.m[args[0]][0]:
                        if len(args) > 1:
                            return args[1]
                        raise _Raise('KeyError')
                    v = self.m[args[0]][1]
                    self._drop(args[0])
                    return v
                if m == 'keys' and not args:
                    return ('keys',)
                if m == 'items' and not args:
                    return ('items',)
                if m == 'copy' and not args:
                    return ('keyseq', self._present())
                if m == 'clear' and not args:
                    self._drop(K)
                    self._drop(K2)
                    return NONE
                raise Unsupported(f'map operation .{m}')
            if rv == ('memo',):
                if m in ('pop', 'clear', 'get'):
                    return NONE
                raise Unsupported(f'memo operation .{m}')
            if isinstance(rv, L):
                if m == 'append' and args == [X]:
                    self._append_x(rv)
                    return NONE
                if m == 'remove' and args == [X]:
                    self._remove_x(rv)
                    return NONE
                if m == 'index' and args == [X]:
                    if rv.xc == 0:
                        raise _Raise('ValueError')
                    self._idx_list = rv
                    return ('idx', 'x')
                if m == 'count' and args == [X]:
                    return ('int', rv.xc if rv.xc < 2 else 2)
                if m == 'copy' and not args:
                    return rv.copy()
                if m == 'pop' and args == [('idx', 'x')]:
                    self._remove_x(rv)
                    return X
                raise Unsupported(f'list operation .{m}')
            raise Unsupported(f'call `{unparse(e)[:40]}`')
        raise Unsupported(f'call `{unparse(e)[:40]}`')


def initial_cases():
    """(description, has key, list) for the complete case split"""
    return [
        ('the event type has no list', False, None),
        ('the list of the event type is empty', True, L(0, '0', None)),
        ('other listeners are subscribed, this one is not', True, L(0, '1+', None)),
        ('only this listener is subscribed', True, L(1, '0', 'first')),
        ('this listener is subscribed first, others after it', True, L(1, '1+', 'first')),
        ('this listener is subscribed after others', True, L(1, '1+', 'later')),
    ]


def check_method(prog, cls, F, fn, kind, memo_fields=()):
    """kind 'add' | 'remove'.  -> ([(case description, what is wrong)], None)  or  (None, reason the method is outside the domain)"""
    kp, lp = fn.args.args[1].arg, fn.args.args[2].arg
    problems = []
    for (desc, has, lst) in initial_cases():
        before = lst.key() if lst is not None else None
        it = Interp(prog, cls, F, kp, lp, has, lst, memo_fields)
        try:
            out = it.run(fn)
        except Unsupported as e:
            return None, str(e)
        except RecursionError:
            return None, 'recursion'
        if out[0] == 'raise':
            if out[1] not in ('EventError',):
                problems.append((desc, f'{out[1]} escapes'))
            else:
                problems.append((desc, f'the call is refused ({out[1]})'))
            continue
        had_x = lst is not None and before[0] >= 1
        after = it.lst.key() if it.has and it.lst is not None else None
        if kind == 'add':
            if not it.has or it.lst is None:
                problems.append((desc, 'the event type has no list afterwards'))
            elif had_x:
                if after != before or it.lst is not lst:
                    problems.append((desc, f'an existing subscription is changed: {it.lst} (was {L(*before)})'))
            else:
                oc = before[1] if before is not None else '0'
                want = (1, oc, 'last' if oc != '0' else 'first')
                if after != want:
                    problems.append((desc, f'afterwards the list is {it.lst}; required: the listener once, after the {"existing" if oc != "0" else "(no)"} others'
                                     + (' -- the listener is stored twice' if after[0] >= 2 else '')))
                elif has and it.lst is not lst and before[1] != '0':
                    problems.append((desc, 'the list of the other listeners is replaced'))
        else:
            if not had_x:
                same = (it.has == has) and (after == before)
                if not same:
                    problems.append((desc, f'removing a listener that is not subscribed changes the map: has list {it.has}, {it.lst}'))
            elif before[1] == '0':
                if it.has and not (after is not None and after[0] == 0 and after[1] == '0' and False):
                    problems.append((desc, f'the last listener is removed but the event type keeps a list ({it.lst}): has_listeners() stays true'
                                     if after is not None and after[0] == 0 else f'the listener is still subscribed afterwards: {it.lst}'))
            else:
                if not it.has or after is None:
                    problems.append((desc, 'the other listeners lose their list'))
                elif after[0] != 0 or after[1] != '1+':
                    problems.append((desc, f'afterwards the list is {it.lst}; required: the others only'))
    return problems, None


def _remove_expectation(before_has, before):
    """what un-subscribing x must leave of one key: (has key, list key) ; `before` = L.key() or None"""
    if not before_has or before is None or before[0] == 0:
        return 'unchanged'
    if before[1] == '0':
        return 'gone'
    return 'others'


def check_remove_all(prog, cls, F, fn, memo_fields=()):
    """remove_all_listeners(event_type, listener) over two event types K2 (registered first), K and one listener x, for the four documented
    forms and every combination of the six single-key cases.  -> ([(form, case description, what is wrong)], None) or (None, reason)."""
    pe, pl = fn.args.args[1].arg, fn.args.args[2].arg
    problems = []
    forms = [('event_type None, listener None', NONE, NONE), ('event_type None, listener given', NONE, X),
             ('event_type given, listener None', K, NONE), ('event_type given, listener given', K, X)]
    for (fdesc, ev, lv) in forms:
        for i2 in range(6):
            for i1 in range(6):
                (d2, has2, l2), (d1, has1, l1) = initial_cases()[i2], initial_cases()[i1]
                b1 = l1.key() if l1 is not None else None
                b2 = l2.key() if l2 is not None else None
                it = Interp(prog, cls, F, None, None, has1, l1, memo_fields)
                it.set_second(has2, l2)
                try:
                    try:
                        it.block(body_of(fn), {pe: ev, pl: lv})
                    except _Return:
                        pass
                except _Raise as e:
                    problems.append((fdesc, f'an earlier event type: {d2}; a later one: {d1}', f'{e.kind} escapes'))
                    continue
                except (_Break, _Continue):
                    return None, 'break / continue outside a loop'
                except Unsupported as e:
                    return None, str(e)
                except RecursionError:
                    return None, 'recursion'
                for (kname, key, bh, b, lst0) in (('the earlier event type', K2, has2, b2, l2), ('the later event type', K, has1, b1, l1)):
                    ah, al = it.m[key]
                    a = al.key() if ah and al is not None else None
                    if ev == NONE and lv == NONE:
                        want = 'gone' if bh else 'unchanged'
                    elif lv == NONE:
                        want = ('gone' if bh else 'unchanged') if key == K else 'unchanged'
                    elif ev == NONE or key == K:
                        want = _remove_expectation(bh, b)
                    else:
                        want = 'unchanged'
                    bad = None
                    if want == 'unchanged':
                        if ah != bh or a != b or (bh and al is not lst0):
                            bad = f'{kname} must be left alone but is changed: has list {ah}, {al}'
                    elif want == 'gone':
                        if ah:
                            bad = (f'{kname} keeps an empty list (has_listeners() stays true)' if a is not None and a[0] == 0 and a[1] == '0'
                                   else f'{kname} still has its list afterwards: {al}' + (' -- the listener stays subscribed there' if a is not None and a[0] >= 1 else ''))
                    else:
                        if not ah or a is None:
                            bad = f'the other listeners of {kname} lose their list'
                        elif a[0] != 0:
                            bad = f'the listener is still subscribed under {kname}: {al}'
                        elif a[1] != '1+':
                            bad = f'the other listeners of {kname} are gone: {al}'
                    if bad:
                        problems.append((fdesc, f'an earlier event type: {d2}; a later one: {d1}', bad))
    return problems, None
