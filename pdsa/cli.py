"""Command line:  python -m pdsa.cli <C01..C18|all> [--tier quick|thorough] [--root /repo]

exit 0  property's rules all discharged (known findings are printed, not failed)
exit 1  + line 'VIOLATION property=<id> replay=<path>' for every unlisted violated rule instance
exit 2  + line 'ANALYSIS-ERROR ...' when the analysis itself could not be carried out
"""
from __future__ import annotations

import argparse
import importlib
import json
import os
import sys
import time
import traceback

from .core import AnalysisError, Program
from .report import Ctx, load_known, write_evidence, write_replay

PROPS = ['C%02d' % i for i in range(1, 19)]


def load_prop(pid):
    return importlib.import_module(f'pdsa.props.{pid.lower()}')


def analyse(pid, root, tier):
    """run the rules of one property on the tree at root -> Ctx (raises AnalysisError)"""
    prog = Program(root)
    mod = load_prop(pid)
    ctx = Ctx(pid, prog, tier)
    known, _fixed = load_known()

    def new_findings():
        return [f for f in ctx.findings if (pid, f.key) not in known]
    try:
        mod.run(ctx)
    except AnalysisError as e:
        # part of the analysis refused the tree; findings already made by other rules stand on their own
        if not new_findings():
            raise
        ctx.note(f'analysis incomplete: {e}')
    fails = getattr(ctx, 'floor_failures', [])
    if fails:
        if not new_findings():
            raise AnalysisError(fails[0])
        for f in fails:
            ctx.note(f'instance floor not met (reported findings are unaffected): {f}')
    if ctx.obligations == 0:
        raise AnalysisError(f'{pid}: no rule instance was examined (vacuous run)')
    return ctx, mod


def run_check(pid, root, tier, seed, quiet=False, evidence=True):
    t0 = time.time()
    ctx, mod = analyse(pid, root, tier)
    known, _fixed = load_known()
    viol = []
    known_hits = []
    for f in ctx.findings:
        if (pid, f.key) in known:
            known_hits.append(f'{f.key} -- {known[(pid, f.key)]}')
            print(f'KNOWN-FINDING: property={pid} {f.key} {known[(pid, f.key)]}  (still present at {f.file}:{f.line})')
        else:
            viol.append(f)
    selftest = None
    if tier == 'thorough' and not viol:
        from . import selftest as st
        selftest = st.run(pid, root, quiet=quiet)
        if selftest['failed']:
            for m in selftest['failures']:
                print('SELFTEST-FAIL', m)
            raise AnalysisError(f'{pid}: checker self-test failed for {selftest["failed"]} variant(s): the checker, '
                                f'not the code, is broken')
    wall = time.time() - t0
    if evidence:
        write_evidence(ctx, wall, seed, len(viol), known_hits, selftest,
                       explanation=getattr(mod, 'EXPLANATION', ''))
    if not quiet:
        print(f'[{pid}] tier={tier} root={root} rules={len(ctx.rules_run)} obligations={ctx.obligations} '
              f'discharged={ctx.discharged} constructs_examined={ctx.evaluations} '
              f'violations={len(viol)} known={len(known_hits)} wall={wall:.2f}s')
        for r in ctx.rules_run:
            print(f'    {r["rule"]:7s} {r["what"]}')
    for f in viol:
        p = write_replay(f)
        print('  ' + f.text())
        print(f'VIOLATION property={pid} replay={p}')
    return 1 if viol else 0


def selfcheck(root):
    """setup step: every registered property module imports, the tree parses"""
    try:
        from .manifest_meta import META
        prog = Program(root)
        for pid in sorted(META):
            load_prop(pid)
        print(f'pdsa selfcheck ok: {len(META)} property modules import; {len(prog.modules)} modules, '
              f'{len(prog.classes)} classes parsed from {root}')
        return 0
    except Exception as e:
        print(f'ANALYSIS-ERROR selfcheck failed: {type(e).__name__}: {e}')
        return 2


def main(argv=None):
    ap = argparse.ArgumentParser(prog='check')
    ap.add_argument('prop')
    ap.add_argument('--tier', default=os.environ.get('VERIF_TIER', 'quick'), choices=['quick', 'thorough'])
    ap.add_argument('--root', default=os.environ.get('PDSA_ROOT', '/repo'))
    ap.add_argument('--replay', default=None, help='print a finding file written by an earlier run and re-run the check')
    ap.add_argument('--no-evidence', action='store_true')
    ap.add_argument('--findings-json', action='store_true', help='print findings as JSON (used by the self-test)')
    a = ap.parse_args(argv)
    try:
        seed = int(os.environ.get('VERIF_SEED', '0') or 0)
    except ValueError:
        seed = 0
    if a.replay:
        try:
            print(json.dumps(json.load(open(a.replay)), indent=1, ensure_ascii=False))
        except Exception as e:
            print(f'cannot read replay file: {e}')
    if a.prop.lower() in ('selfcheck', '--selfcheck'):
        return selfcheck(a.root)
    pids = PROPS if a.prop.lower() == 'all' else [a.prop.upper()]
    rc = 0
    for pid in pids:
        if pid not in PROPS:
            print(f'ANALYSIS-ERROR unknown property {pid}')
            return 2
        try:
            if a.findings_json:
                ctx, _ = analyse(pid, a.root, a.tier)
                print(json.dumps([f.as_dict() for f in ctx.findings], ensure_ascii=False))
                continue
            r = run_check(pid, a.root, a.tier, seed, evidence=not a.no_evidence)
            rc = max(rc, r)
        except AnalysisError as e:
            print(f'ANALYSIS-ERROR property={pid} {e}')
            rc = 2
        except Exception as e:                                      # never let a traceback look like exit 1
            traceback.print_exc(file=sys.stdout)
            print(f'ANALYSIS-ERROR property={pid} checker crashed: {type(e).__name__}: {e}')
            rc = 2
    return rc


if __name__ == '__main__':
    sys.exit(main())
