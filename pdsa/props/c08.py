"""C08 -- publish/subscribe: a fired event reaches exactly its subscribers, once, in order (DESIGN §3-C08)."""
from __future__ import annotations

import ast
import copy
import itertools

from ..cfg import CFG
from ..core import AnalysisError, body_of, is_self_attr, short, strip_doc, unparse, walk_shallow
from ..guards import GuardEval, ctext
from ..simrules import _node_containing, rbe_check

EXPLANATION = (
    "Structural rules over EventProducer / Event / TimedEvent / EventType: both fire loops iterate a fresh copy of the "
    "listener list looked up under the fired event's own type, call notify exactly once per element with that event and "
    "contain no break/continue/return (so subscription changes and nested firing inside a notification cannot skip or "
    "duplicate a delivery); every append to a listener list is dominated by a not-in test (duplicates ignored); the "
    "listener map is mutated only inside EventProducer, removals are guarded by membership tests, an emptied list's key is "
    "deleted; the four-way split of remove_all_listeners is evaluated over (event_type is None) x (listener is None); "
    "fire_event/fire_timed_event and fire/fire_timed agree after normalisation (sibling cross-check); refused "
    "subscribe/unsubscribe/fire calls have no effect; the metadata checks of Event.__init__ are present with the right "
    "nesting (dict check unconditional, length/key/type checks under `check`); TimedEvent stores and returns its "
    "timestamp after the type guard.")

P = 'EventProducer'
COPY_FORMS = ('copy', 'list', 'tuple', 'slice', 'sorted-no')


def run(ctx):
    prog = ctx.prog
    ctx.uses('pubsub')
    prog.cls(P)
    ctx.trust('list iteration order = insertion order; dict preserves insertion order')
    r81(ctx)
    r82(ctx)
    r83(ctx)
    r84(ctx)
    r85(ctx)
    r86(ctx)
    r89_event_type_identity(ctx)
    from ..statrules import shared_class_state
    r89_listener_identity(ctx)
    shared_class_state(ctx, 'R8.8', sorted(c for c, ci in ctx.prog.classes.items() if ci.module.name == 'pubsub'),
                       'a listener subscribed to one producer is notified by every producer (and removing it from one removes it from all)')
    ctx.rule('R8.7', 'refused subscribe / unsubscribe / fire calls change nothing (refuse-before-effect)')
    ctx.assume('names bound to elements of the producer\'s own listener map are well typed')
    rbe_check(ctx, 'R8.7', P, ('add_listener', 'remove_listener', 'remove_all_listeners', 'fire_event', 'fire_timed_event', 'fire', 'fire_timed'),
              'refused pub/sub call has already taken effect', floor=7)


class _GetToIndex(ast.NodeTransformer):
    """matching form of the listener map accesses: `self.F.get(k)` reads `self.F[k]`; `self.F[k] is None` tests `k not in self.F`;
    the statement `self.F.pop(k, None)` is `if k in self.F: del self.F[k]`"""

    def __init__(self, F):
        self.F = F

    def visit_Call(self, node):
        self.generic_visit(node)
        if isinstance(node.func, ast.Attribute) and node.func.attr == 'get' and is_self_attr(node.func.value, self.F) and len(node.args) == 1 and not node.keywords:
            return ast.copy_location(ast.Subscript(value=node.func.value, slice=node.args[0], ctx=ast.Load()), node)
        return node

    def visit_Compare(self, node):
        self.generic_visit(node)
        if len(node.ops) == 1 and isinstance(node.ops[0], (ast.Is, ast.IsNot, ast.Eq, ast.NotEq)) and isinstance(node.comparators[0], ast.Constant) \
                and node.comparators[0].value is None and isinstance(node.left, ast.Subscript) and is_self_attr(node.left.value, self.F):
            absent = isinstance(node.ops[0], (ast.Is, ast.Eq))
            return ast.copy_location(ast.Compare(left=node.left.slice, ops=[ast.NotIn() if absent else ast.In()], comparators=[node.left.value]), node)
        return node

    def visit_Expr(self, node):
        self.generic_visit(node)
        c = node.value
        if isinstance(c, ast.Call) and isinstance(c.func, ast.Attribute) and c.func.attr == 'pop' and is_self_attr(c.func.value, self.F) and len(c.args) == 2 \
                and isinstance(c.args[1], ast.Constant) and c.args[1].value is None:
            key = c.args[0]
            d = ast.Delete(targets=[ast.Subscript(value=c.func.value, slice=key, ctx=ast.Del())])
            new = ast.If(test=ast.Compare(left=key, ops=[ast.In()], comparators=[c.func.value]), body=[ast.copy_location(d, node)], orelse=[])
            return ast.fix_missing_locations(ast.copy_location(new, node))
        return node


def _canon_producer(prog, F):
    ci = prog.cls(P)
    if getattr(ci, '_pdsa_canon_done', False):
        return
    ci._pdsa_orig_methods = {name: copy.deepcopy(fn) for name, fn in ci.methods.items()}       # as written (the subscription-map interpreter reads these)
    for fn in list(ci.methods.values()):
        _GetToIndex(F).visit(fn)
        ast.fix_missing_locations(fn)
    ci._pdsa_canon_done = True


def listeners_field(prog):
    F = _listeners_field(prog)
    _canon_producer(prog, F)
    return F


def _listeners_field(prog):
    init = prog.method(P, '__init__', inherited=False)
    fields = [t.attr for n in walk_shallow(init) if isinstance(n, (ast.Assign, ast.AnnAssign))
              for t in (n.targets if isinstance(n, ast.Assign) else [n.target]) if is_self_attr(t)]
    fields = sorted(set(fields))
    if len(fields) != 1:
        # several fields: the listener map is the one add_listener inserts into (`self.F[event_type]....append / = [..]`)
        add = prog.method(P, 'add_listener', inherited=False)
        used = set()
        for n in walk_shallow(add):
            if isinstance(n, ast.Subscript) and is_self_attr(n.value) and n.value.attr in fields:
                used.add(n.value.attr)
            if isinstance(n, ast.Call) and isinstance(n.func, ast.Attribute) and n.func.attr == 'setdefault' and is_self_attr(n.func.value) and n.func.value.attr in fields:
                used.add(n.func.value.attr)
        if len(used) != 1:
            # several are written on subscription (an index beside the map): the map is the one the notification walks
            for fname in ('fire_event', 'fire_timed_event'):
                fire = prog.method(P, fname, inherited=False)
                if fire is None:
                    continue
                walked = {n.attr for n in ast.walk(fire) if is_self_attr(n) and n.attr in fields}
                if len(walked & (used or set(fields))) == 1:
                    return (walked & (used or set(fields))).pop()
        if len(used) != 1:
            raise AnalysisError(f'anchor vanished: EventProducer.__init__ assigns {fields}; cannot tell which one is the listener map')
        return used.pop()
    return fields[0]


def copy_of(expr):
    """(form, base expr) when expr is a fresh copy of a sequence"""
    if isinstance(expr, ast.Call) and isinstance(expr.func, ast.Attribute) and expr.func.attr == 'copy' and not expr.args:
        return 'copy', expr.func.value
    if isinstance(expr, ast.Call) and isinstance(expr.func, ast.Name) and expr.func.id in ('list', 'tuple') and len(expr.args) == 1:
        return expr.func.id, expr.args[0]
    if isinstance(expr, ast.Subscript) and isinstance(expr.slice, ast.Slice) and expr.slice.lower is None and expr.slice.upper is None and expr.slice.step is None:
        return 'slice', expr.value
    return None, expr


# --------------------------------------------------------------------------- memoised copies of the listener lists
LIST_MUT = ('append', 'extend', 'insert', 'remove', 'pop', 'clear', 'sort', 'reverse')
DICT_MUT = ('pop', 'popitem', 'clear', 'update')


def _key_of_listener_expr(e, F):
    """K for `self.F[K]`, `self.F.get(K[, d])`, `self.F.setdefault(K, d)`; None otherwise"""
    if isinstance(e, ast.Subscript) and is_self_attr(e.value, F):
        return unparse(e.slice)
    if isinstance(e, ast.Call) and isinstance(e.func, ast.Attribute) and e.func.attr in ('get', 'setdefault') and is_self_attr(e.func.value, F) and e.args:
        return unparse(e.args[0])
    return None


def memo_snapshot(ctx, prog, fn, loop, F, param):
    """The delivery loop iterates a local S with
           S = self.C.get(K);  if S is None: S = <copy of self.F[K]>;  self.C[K] = S      (K = <param>.event_type)
    i.e. a copy of the listener list that is kept per event type until the list changes.  That is as good as a fresh copy iff
      (a) C starts empty and is filled only here, with the copy just made, before anything else can run (no call in between);
      (b) every change of a listener list -- in any method of any class -- is followed on every normal path, before any
          notification, by dropping C's entry for the same key (or all entries);
      (c) nothing changes the stored copies in place.
    Returns (base text of the copied list or None, [problems]); None when the loop is not of this form."""
    if not isinstance(loop.iter, ast.Name):
        return None
    S = loop.iter.id
    defs = [a for a in walk_shallow(fn) if isinstance(a, (ast.Assign, ast.AnnAssign)) and getattr(a, 'value', None) is not None
            and any(isinstance(t, ast.Name) and t.id == S for t in (a.targets if isinstance(a, ast.Assign) else [a.target]))]
    if len(defs) != 2:
        return None
    lookup = [a for a in defs if isinstance(a.value, (ast.Call, ast.Subscript)) and not copy_of(a.value)[0]]
    copies = [a for a in defs if copy_of(a.value)[0]]
    if len(lookup) != 1 or len(copies) != 1:
        return None
    lk = lookup[0].value
    C = K = None
    if isinstance(lk, ast.Call) and isinstance(lk.func, ast.Attribute) and lk.func.attr == 'get' and is_self_attr(lk.func.value) and len(lk.args) in (1, 2) \
            and (len(lk.args) == 1 or (isinstance(lk.args[1], ast.Constant) and lk.args[1].value is None)):
        C, K = lk.func.value.attr, unparse(lk.args[0])
    if C is None or C == F:
        return None
    problems = []
    g = CFG(fn)
    form, base = copy_of(copies[0].value)
    bt = unparse(base)
    if _key_of_listener_expr(base, F) != K:
        problems.append(f'the memoised copy under key `{K}` is made from `{bt}`, another list')
    # the copy is made exactly when the lookup found nothing
    cn = g.node_for(copies[0])
    guards = [(unparse(c.ast), br) for (c, br) in g.guard_branches(cn)]
    if not any((t in (f'{S} is None', f'{S} == None') and br) or (t in (f'{S} is not None', f'{S} != None', S) and not br) or (t == f'not {S}' and br) for (t, br) in guards):
        problems.append(f'the copy `{short(copies[0], 50)}` is not made exactly when `self.{C}.get({K})` found nothing')
    # (a) stores into C
    cls_methods = []
    for cname, ci in prog.classes.items():
        if prog.is_subclass(cname, P):
            for mname, f2 in list(ci.methods.items()) + list(ci.setters.items()):
                cls_methods.append((cname, mname, f2))
    nstores = 0
    for (cname, mname, f2) in cls_methods:
        g2 = None
        for st in walk_shallow(f2):
            if isinstance(st, (ast.Assign, ast.AnnAssign, ast.AugAssign)):
                for t in (st.targets if isinstance(st, ast.Assign) else [st.target]):
                    if isinstance(t, ast.Subscript) and is_self_attr(t.value, C):
                        nstores += 1
                        okst = isinstance(st, ast.Assign) and isinstance(st.value, ast.Name)
                        if okst:
                            # the stored value is the copy of the list of the same key, made by the statement just before
                            cps = [a for a in walk_shallow(f2) if isinstance(a, (ast.Assign, ast.AnnAssign)) and getattr(a, 'value', None) is not None
                                   and any(isinstance(t2, ast.Name) and t2.id == st.value.id for t2 in (a.targets if isinstance(a, ast.Assign) else [a.target]))
                                   and copy_of(a.value)[0] and _key_of_listener_expr(copy_of(a.value)[1], F) == unparse(t.slice)]
                            g2 = g2 or CFG(f2)
                            sn = g2.node_for(st)
                            preds = [p_ for (p_, lab) in sn.pred if lab != 'exc']
                            okst = len(cps) == 1 and len(preds) == 1 and preds[0] is g2.node_for(cps[0])
                        if not okst:
                            problems.append(f'`{short(st, 60)}` in {cname}.{mname} stores into the memo `{C}` something other than the copy just made, or not '
                                            f'directly after making it: whatever ran in between (a notified listener subscribing or unsubscribing) makes the stored copy stale, '
                                            f'and later fires deliver to the wrong set of listeners')
                    elif is_self_attr(t, C) and mname != '__init__':
                        v = getattr(st, 'value', None)
                        if not (isinstance(v, ast.Dict) and not v.keys) and not (isinstance(v, ast.Call) and unparse(v.func) == 'dict' and not v.args and not v.keywords):
                            problems.append(f'`{short(st, 60)}` in {cname}.{mname} re-binds the memo `{C}` to something that is not empty')
    if nstores == 0:
        problems.append(f'the memo `{C}` is never filled')
    # (c) stored copies are never changed in place
    for (cname, mname, f2) in cls_methods:
        for x in walk_shallow(f2):
            if isinstance(x, ast.Call) and isinstance(x.func, ast.Attribute) and x.func.attr in LIST_MUT:
                r = x.func.value
                if (isinstance(r, ast.Subscript) and is_self_attr(r.value, C)) or \
                        (isinstance(r, ast.Call) and isinstance(r.func, ast.Attribute) and r.func.attr == 'get' and is_self_attr(r.func.value, C)):
                    problems.append(f'`{short(x, 50)}` in {cname}.{mname} changes a memoised copy in place')
    # (b) every change of a listener list drops the memo entry
    nmut = 0
    for (cname, mname, f2) in cls_methods:
        if mname == '__init__':
            continue
        g2 = CFG(f2)
        alias = {}
        for a in walk_shallow(f2):
            if isinstance(a, (ast.Assign, ast.AnnAssign)) and getattr(a, 'value', None) is not None:
                k_ = _key_of_listener_expr(a.value, F)
                for t in (a.targets if isinstance(a, ast.Assign) else [a.target]):
                    if isinstance(t, ast.Name) and k_ is not None:
                        alias[t.id] = k_
        muts = []      # (node, key or '*')
        invs = []
        for nd in g2.stmt_nodes():
            if nd.ast is None:
                continue
            a_ = nd.ast
            roots = [a_.test] if isinstance(a_, (ast.If, ast.While)) else [a_.iter] if isinstance(a_, ast.For) else [a_]
            for root in roots:
                for x in ([root] + list(walk_shallow(root)) if not isinstance(root, ast.stmt) else walk_shallow(root)):
                    if isinstance(x, ast.Call) and isinstance(x.func, ast.Attribute):
                        r = x.func.value
                        m_ = x.func.attr
                        if m_ in LIST_MUT:
                            k_ = _key_of_listener_expr(r, F)
                            if k_ is None and isinstance(r, ast.Name) and r.id in alias:
                                k_ = alias[r.id]
                            if k_ is not None:
                                muts.append((nd, k_, x))
                        if is_self_attr(r, F) and m_ in DICT_MUT:
                            muts.append((nd, unparse(x.args[0]) if (m_ == 'pop' and x.args) else '*', x))
                        if is_self_attr(r, C) and m_ in ('pop', 'clear'):
                            invs.append((nd, unparse(x.args[0]) if (m_ == 'pop' and x.args) else '*'))
                    elif isinstance(x, ast.Subscript) and isinstance(x.ctx, (ast.Store, ast.Del)):
                        if is_self_attr(x.value, F):
                            # creating the (empty) list of a key that has none cannot make a copy stale
                            fresh_key = isinstance(x.ctx, ast.Store) and any(
                                (unparse(c.ast) in (f'{unparse(x.slice)} not in self.{F}', f'not {unparse(x.slice)} in self.{F}') and br) or
                                (unparse(c.ast) == f'{unparse(x.slice)} in self.{F}' and not br) for (c, br) in g2.guard_branches(nd))
                            if not fresh_key:
                                muts.append((nd, unparse(x.slice), x))
                        elif is_self_attr(x.value, C) and isinstance(x.ctx, ast.Del):
                            invs.append((nd, unparse(x.slice)))
                        elif isinstance(x.value, ast.Subscript) and is_self_attr(x.value.value, F):
                            muts.append((nd, unparse(x.value.slice), x))
                    elif isinstance(x, ast.Attribute) and isinstance(x.ctx, ast.Store) and is_self_attr(x, F):
                        muts.append((nd, '*', x))
                    elif isinstance(x, ast.Attribute) and isinstance(x.ctx, ast.Store) and is_self_attr(x, C):
                        invs.append((nd, '*'))
        ext = [nd for nd in g2.stmt_nodes() if nd.ast is not None and any(
            isinstance(c, ast.Call) and isinstance(c.func, ast.Attribute) and (c.func.attr == 'notify' or (is_self_attr(c.func) and c.func.attr.startswith('fire')))
            for c in walk_shallow(nd.ast))]
        for (nd, k_, x) in muts:
            nmut += 1
            good = [i for (i, ki) in invs if ki == '*' or ki == k_]
            good = [i for i in good if i is not nd] or good
            skipped = nd is not None and g2.reaches(nd, g2.exit, avoid=[i for i in good if i is not nd], labels_excluded=('exc', 'raise', 'reraise')) \
                and not any(i is nd for i in good)
            early = any(e_ is not nd and g2.reaches(nd, e_, avoid=good) for e_ in ext)
            if good and (skipped or early):
                # dropped just before the change instead: as good, provided nothing is notified between the two
                before = [i for i in good if i is not nd and g2.dominates(i, nd)]
                if before and not any(g2.reaches(i, e_) and g2.reaches(e_, nd) for i in before for e_ in ext if e_ is not i and e_ is not nd) \
                        and not any(e_ is not nd and g2.reaches(nd, e_) and False for e_ in ext):
                    skipped = early = False
            if not good or skipped or early:
                problems.append(f'`{short(x, 50)}` in {cname}.{mname} changes the listener list of `{k_}` but the memoised copy `self.{C}[{k_}]` is '
                                + ('never dropped' if not good else 'not dropped on every path' if skipped else 'dropped only after a notification')
                                + ': the next fire delivers to the old set of listeners')
    ctx.sample(f'R8.1: {P}.{fn.name} iterates a memoised copy `self.{C}[{K}]` of `{bt}`: {nstores} store(s), {nmut} list changes each followed by dropping the entry')
    return base, problems


def memo_fields(prog, F):
    """names of the fields used as memo of listener-list copies by the delivery loops (their upkeep is decided by R8.1)"""
    out = set()
    ci = prog.cls(P)
    for fn in ci.methods.values():
        for loop in [x for x in walk_shallow(fn) if isinstance(x, ast.For) and isinstance(x.iter, ast.Name)]:
            if not any(isinstance(c, ast.Call) and isinstance(c.func, ast.Attribute) and c.func.attr == 'notify' for b in loop.body for c in ast.walk(b)):
                continue
            for a in walk_shallow(fn):
                if isinstance(a, (ast.Assign, ast.AnnAssign)) and getattr(a, 'value', None) is not None \
                        and any(isinstance(t, ast.Name) and t.id == loop.iter.id for t in (a.targets if isinstance(a, ast.Assign) else [a.target])):
                    v = a.value
                    if isinstance(v, ast.Call) and isinstance(v.func, ast.Attribute) and v.func.attr == 'get' and is_self_attr(v.func.value) and v.func.value.attr != F:
                        out.add(v.func.value.attr)
    return out


def _reduce_for_listener_element(prog, body, elem):
    """the loop body specialised for `elem` being an EventListener object: tests on it (and on locals that are copies of it) that this decides are
    spliced; returns the new statement list, or None when a statement kind is not handled"""
    listener_classes = {c for c in prog.classes if any(k in ('EventListener', 'EventListenerInterface') for k in prog.mro(c))} | {'object'}
    co_bases = {k for c in listener_classes if c in prog.classes for k in prog.mro(c)}
    alias = {elem}

    def decide(t):
        if isinstance(t, ast.UnaryOp) and isinstance(t.op, ast.Not):
            v = decide(t.operand)
            return None if v is None else not v
        if isinstance(t, ast.BoolOp):
            vs = [decide(v) for v in t.values]
            if isinstance(t.op, ast.And):
                return False if False in vs else True if all(v is True for v in vs) else None
            return True if True in vs else False if all(v is False for v in vs) else None
        if isinstance(t, ast.Compare) and len(t.ops) == 1 and isinstance(t.left, ast.Name) and t.left.id in alias \
                and isinstance(t.comparators[0], ast.Constant) and t.comparators[0].value is None:
            if isinstance(t.ops[0], (ast.Is, ast.Eq)):
                return False
            if isinstance(t.ops[0], (ast.IsNot, ast.NotEq)):
                return True
        if isinstance(t, ast.Call) and unparse(t.func) == 'isinstance' and len(t.args) == 2 and isinstance(t.args[0], ast.Name) and t.args[0].id in alias:
            tn = [unparse(x).split('.')[-1] for x in (t.args[1].elts if isinstance(t.args[1], ast.Tuple) else [t.args[1]])]
            if any(x in ('EventListener', 'EventListenerInterface', 'object') for x in tn):
                return True
            # classes no listener object can be an instance of: builtins / weak references, and program classes that no listener class derives from
            # (a listener may well be an EventProducer too: that test is not decided)
            foreign = {'ref', 'ReferenceType', 'WeakMethod', 'ProxyType', 'CallableProxyType', 'type', 'str', 'int', 'float', 'bool', 'bytes', 'dict', 'list',
                       'tuple', 'set', 'frozenset'}
            if all(x in foreign or (x in prog.classes and x not in co_bases) for x in tn):
                return False
        if isinstance(t, ast.Name) and t.id in alias:
            return None                          # truthiness of a listener object: user-defined
        return None

    def red(stmts):
        out = []
        for st in stmts:
            if isinstance(st, ast.If):
                v = decide(st.test)
                if v is None:
                    b, o = red(st.body), red(st.orelse)
                    if b is None or o is None:
                        return None
                    out.append(ast.If(test=st.test, body=b or [ast.Pass()], orelse=o))
                else:
                    r = red(st.body if v else st.orelse)
                    if r is None:
                        return None
                    out += r
            elif isinstance(st, ast.Assign) and len(st.targets) == 1 and isinstance(st.targets[0], ast.Name):
                val = st.value
                if isinstance(val, ast.IfExp):
                    v = decide(val.test)
                    if v is not None:
                        val = val.body if v else val.orelse
                if isinstance(val, ast.Name) and val.id in alias:
                    alias.add(st.targets[0].id)             # a copy of the element
                    continue
                if st.targets[0].id in alias:
                    return None                              # the element (or a copy) re-bound to something else
                out.append(st)
            elif isinstance(st, (ast.Expr, ast.Pass)):
                out.append(st)
            else:
                return None
        return out

    r = red(body)
    if r is None:
        return None

    class _Ren(ast.NodeTransformer):
        def visit_Name(self, n):
            return ast.copy_location(ast.Name(id=elem, ctx=n.ctx), n) if n.id in alias else n
    return [ast.fix_missing_locations(_Ren().visit(copy.deepcopy(x))) for x in r]


def r81(ctx):
    prog = ctx.prog
    F = listeners_field(prog)
    ctx.rule('R8.1', 'fire loops: iterate a fresh copy of the list registered under the fired event\'s own type; exactly one notify(event) per element; no break/continue/return')
    ci = prog.cls(P)
    n = 0
    # nothing of a listener runs while the producer holds a non-reentrant lock of its own: a listener that (un)subscribes or fires from
    # inside notify() -- explicitly supported by the copy of the list -- would wait for that lock for ever (read in the source as written)
    raw = ast.parse(ci.module.src)
    for rc in [c for c in raw.body if isinstance(c, ast.ClassDef) and c.name == P]:
        locks = {t.attr for x in ast.walk(rc) if isinstance(x, (ast.Assign, ast.AnnAssign)) and isinstance(getattr(x, 'value', None), ast.Call)
                 and unparse(x.value.func) in ('threading.Lock', 'Lock') for t in (x.targets if isinstance(x, ast.Assign) else [x.target]) if isinstance(t, ast.Attribute)}
        for m in [m for m in rc.body if isinstance(m, ast.FunctionDef)]:
            for w in [w for w in ast.walk(m) if isinstance(w, ast.With)]:
                held = [unparse(i.context_expr) for i in w.items if isinstance(i.context_expr, ast.Attribute) and i.context_expr.attr in locks]
                if not held:
                    continue
                calls = [c for b in w.body for c in ast.walk(b) if isinstance(c, ast.Call) and isinstance(c.func, ast.Attribute) and c.func.attr == 'notify']
                ctx.ob('R8.1', f'{P}.{m.name}:under-lock', not calls, sample=f'{P}.{m.name}: with {held[0]}: listener code inside: {bool(calls)}')
                for c in calls[:1]:
                    ctx.finding('R8.1', f'{P}.{m.name}:notify-under-lock', ci, c,
                                f'`{short(c)}` runs while `{held[0]}` (a non-reentrant threading.Lock that add_listener / remove_listener take as well) is held: a listener '
                                f'that subscribes, unsubscribes or stops the simulator from inside notify() blocks its own thread for ever -- in the simulator the run thread, '
                                f'with the event already popped', where=f'{P}.{m.name}')
    for fn in ci.methods.values():
        # delivery written as a generator expression handed to a consumer that stops early
        for call in [x for x in walk_shallow(fn) if isinstance(x, ast.Call) and isinstance(x.func, ast.Name) and x.args and isinstance(x.args[0], ast.GeneratorExp)]:
            gen = call.args[0]
            if not any(isinstance(c, ast.Call) and isinstance(c.func, ast.Attribute) and c.func.attr == 'notify' for c in ast.walk(gen)):
                continue
            n += 1
            lazy = call.func.id in ('any', 'all', 'next')
            ctx.ob('R8.1', f'{P}.{fn.name}:{call.func.id}', not lazy, sample=f'{P}.{fn.name}: delivery by {call.func.id}(<generator of notify calls>)')
            if lazy:
                ctx.finding('R8.1', f'{P}.{fn.name}:short-circuit', ci, call,
                            f'the listeners are notified from inside `{call.func.id}(...)`, which stops consuming the generator at the first '
                            f'{"true" if call.func.id == "any" else "false" if call.func.id == "all" else ""} result: when a listener\'s notify() returns such a value, the '
                            f'listeners subscribed after it are not notified at all', where=f'{P}.{fn.name}')
        for loop in [x for x in walk_shallow(fn) if isinstance(x, (ast.For, ast.While))]:
            notifies = [c for s in loop.body for c in ast.walk(s) if isinstance(c, ast.Call) and isinstance(c.func, ast.Attribute) and c.func.attr == 'notify']
            if not notifies:
                continue
            if isinstance(loop, ast.For) and isinstance(loop.target, ast.Name) and (len(loop.body) != 1 or not isinstance(loop.body[0], ast.Expr)):
                # by the case the property speaks of -- the element is a (strongly held) EventListener: not None, not an instance of any class
                # outside the listener hierarchy --, the body is reduced (decided tests spliced, copies of the element followed) before it is
                # compared with `element.notify(event)`
                red = _reduce_for_listener_element(prog, loop.body, loop.target.id)
                if red is not None and red != loop.body:
                    loop = ast.For(target=loop.target, iter=loop.iter, body=red, orelse=loop.orelse, lineno=loop.lineno, col_offset=loop.col_offset,
                                   end_lineno=getattr(loop, 'end_lineno', loop.lineno), end_col_offset=getattr(loop, 'end_col_offset', 0))
                    notifies = [c for s_ in loop.body for c in ast.walk(s_) if isinstance(c, ast.Call) and isinstance(c.func, ast.Attribute) and c.func.attr == 'notify']
                    ctx.note(f'R8.1: {P}.{fn.name}: delivery loop read for a strongly held EventListener element: {[short(s_, 40) for s_ in red]}')
            n += 1
            problems = []
            param = fn.args.args[1].arg if len(fn.args.args) > 1 else None
            if not isinstance(loop, ast.For):
                problems.append('delivery loop is not a for-loop over the listener list')
            else:
                it_ = loop.iter
                if isinstance(it_, ast.Name):
                    # `snapshot = list(...)` taken earlier in the method: the loop iterates that snapshot
                    defs_ = [a for a in walk_shallow(fn) if isinstance(a, (ast.Assign, ast.AnnAssign)) and getattr(a, 'value', None) is not None
                             and any(isinstance(t, ast.Name) and t.id == it_.id for t in (a.targets if isinstance(a, ast.Assign) else [a.target]))]
                    if len(defs_) == 1:
                        it_ = defs_[0].value
                form, base = copy_of(it_)
                memo = memo_snapshot(ctx, prog, fn, loop, F, param) if form is None else None
                if memo is not None:
                    form, base = 'memo', memo[0]
                    problems += memo[1]
                if form is None:
                    problems.append(f'iterates `{short(loop.iter, 50)}` directly, not a copy: a listener that (un)subscribes during notify makes the loop skip or repeat listeners')
                bt = unparse(base)
                want = {f'self.{F}.get({param}.event_type)', f'self.{F}[{param}.event_type]', f'self.{F}.get({param}.event_type, [])',
                        f'self.{F}.get({param}.event_type, ())'}
                if bt not in want:
                    problems.append(f'listener list is `{bt}`, not the list registered under {param}.event_type')
                if len(notifies) != 1:
                    problems.append(f'{len(notifies)} notify calls per element')
                else:
                    c = notifies[0]
                    tgt = loop.target.id if isinstance(loop.target, ast.Name) else None
                    if not (isinstance(c.func.value, ast.Name) and c.func.value.id == tgt):
                        problems.append('notify is not called on the loop element')
                    if not (len(c.args) == 1 and unparse(c.args[0]) == param):
                        problems.append(f'notify is not passed the fired event `{param}`')
                    if len(loop.body) != 1 or not (isinstance(loop.body[0], ast.Expr) and loop.body[0].value is c):
                        extra = [s for s in loop.body if not (isinstance(s, ast.Expr) and s.value is c)]
                        if any(isinstance(x, (ast.If, ast.Try, ast.While, ast.For)) for x in extra):
                            problems.append('notify call is conditional or wrapped: some listeners may be skipped')
                for s in loop.body:
                    for x in ast.walk(s):
                        if isinstance(x, (ast.Break, ast.Continue, ast.Return)):
                            problems.append(f'{type(x).__name__.lower()} inside the delivery loop')
                if loop.orelse:
                    problems.append('for-else on the delivery loop')
            ok = not problems
            ctx.ob('R8.1', f'{P}.{fn.name}', ok, sample=f'{P}.{fn.name}: for {short(loop.target)} in {short(loop.iter, 60)}: {[short(s, 40) for s in loop.body]}')
            for pr in problems:
                ctx.finding('R8.1', f'{P}.{fn.name}:{pr.split(":")[0][:40]}', ci, loop, pr, where=f'{P}.{fn.name}')
    ctx.floor('R8.1', 'delivery loops', n, 2)
    # the early return when nobody listens must test the same key
    for name in ('fire_event', 'fire_timed_event'):
        fn = prog.method(P, name, inherited=False)
        param = fn.args.args[1].arg
        tests = [i for i in walk_shallow(fn) if isinstance(i, ast.If) and any(isinstance(x, ast.Return) for x in i.body)]
        ok = all(unparse(i.test) in (f'{param}.event_type not in self.{F}', f'not {param}.event_type in self.{F}',
                                     f'self.{F}.get({param}.event_type) is None', f'self.{F}.get({param}.event_type) == None') for i in tests)
        ctx.ob('R8.1', f'{P}.{name}:early-return', ok, sample=f'{P}.{name}: returns early only when {[short(i.test) for i in tests]}')
        if not ok:
            ctx.finding('R8.1', f'{P}.{name}:early-return', ci, tests[0], 'fire returns early under a condition other than "no list for this event type"', where=f'{P}.{name}')


def subscription_semantics(ctx, kind):
    """add_listener / remove_listener interpreted over the finite abstraction of the subscription map (E11) for the complete case split
    (no list | empty list | others only | only this listener | this listener first | this listener later) and compared with their
    contracts.  -> True (proved), False (a finding was reported), None (the method is outside the abstract domain: syntactic rule decides)"""
    from .. import submap
    prog = ctx.prog
    F = listeners_field(prog)
    ci = prog.cls(P)
    cache = ctx.extra.setdefault('_submap', {})
    if kind in cache:
        return cache[kind]
    mname = 'add_listener' if kind == 'add' else 'remove_listener'
    fn = getattr(ci, '_pdsa_orig_methods', {}).get(mname) or prog.method(P, mname, inherited=False)
    rule = 'R8.2' if kind == 'add' else 'R8.3'
    probs, why = submap.check_method(prog, P, F, fn, kind, memo_fields(prog, F))
    ctx.examined(6)
    if probs is None:
        ctx.note(f'{rule}: {P}.{mname} is outside the abstract domain of the subscription-map interpreter ({why}); the syntactic rule decides')
        cache[kind] = None
        return None
    ok = not probs
    spec = ('afterwards the listener is subscribed exactly once, after the listeners that were there; an existing subscription is left alone' if kind == 'add'
            else 'afterwards the listener is not subscribed, the others are untouched, the key of an emptied list is gone; an absent listener / type is harmless')
    ctx.ob(rule, f'{P}.{mname}:contract', ok, sample=f'{P}.{mname} interpreted over 6 cases of the subscription map: {spec}: {ok}')
    for (desc, what) in probs[:2]:
        ctx.finding(rule, f'{P}.{mname}:contract:{desc[:30]}', ci, prog.method(P, mname, inherited=False),
                    f'{mname} when {desc}: {what}' + (' (the listener is then notified twice per event, and one remove_listener leaves it subscribed)' if 'x*2' in what else ''),
                    where=f'{P}.{mname}')
    cache[kind] = ok
    return ok


def r82(ctx):
    prog = ctx.prog
    F = listeners_field(prog)
    sem_add = subscription_semantics(ctx, 'add')
    ctx.rule('R8.2', 'every append into a listener list is dominated by `listener not in <that list>`; the list is created as a list')
    ci = prog.cls(P)
    n = 0
    for fn in ci.methods.values():
        g = None
        if fn.name == 'add_listener' and sem_add is not None:
            n += 1                      # decided by the interpreter above (proved, or reported there)
            continue
        # `subs = self.F.setdefault(key, [])` / `subs = self.F[key]` name the list registered under key
        list_locals = {}
        for a in walk_shallow(fn):
            if isinstance(a, ast.Assign) and len(a.targets) == 1 and isinstance(a.targets[0], ast.Name):
                v = a.value
                if isinstance(v, ast.Subscript) and is_self_attr(v.value, F):
                    list_locals[a.targets[0].id] = unparse(v)
                elif isinstance(v, ast.Call) and isinstance(v.func, ast.Attribute) and v.func.attr == 'setdefault' and is_self_attr(v.func.value, F) \
                        and len(v.args) == 2 and isinstance(v.args[1], ast.List) and not v.args[1].elts:
                    list_locals[a.targets[0].id] = f'self.{F}[{unparse(v.args[0])}]'
        for c in walk_shallow(fn):
            recv_ok = isinstance(c, ast.Call) and isinstance(c.func, ast.Attribute) and c.func.attr in ('append', 'insert', 'extend', 'add') and (
                (isinstance(c.func.value, ast.Subscript) and is_self_attr(c.func.value.value, F))
                or (isinstance(c.func.value, ast.Name) and c.func.value.id in list_locals))
            if recv_ok:
                n += 1
                g = g or CFG(fn)
                node = _node_containing(g, c)
                lst = unparse(c.func.value)
                alias = list_locals.get(lst)
                arg = unparse(c.args[-1]) if c.args else '?'
                names = [lst] + ([alias] if alias else [])
                ok = c.func.attr == 'append' and any(
                    (unparse(cn.ast) in [f'{arg} not in {l_}' for l_ in names] + [f'not {arg} in {l_}' for l_ in names] and br)
                    or (unparse(cn.ast) in [f'{arg} in {l_}' for l_ in names] and not br)
                    for (cn, br) in g.guard_branches(node, atoms=True))
                ctx.ob('R8.2', f'{P}.{fn.name}:append', ok, sample=f'{P}.{fn.name}: {short(c)} guarded by not-in test: {ok}')
                if not ok:
                    ctx.finding('R8.2', f'{P}.{fn.name}:{c.func.attr}', ci, c,
                                f'`{short(c)}` is not dominated by `{arg} not in {lst}`: a duplicate subscription is stored and the listener is notified twice',
                                where=f'{P}.{fn.name}')
        for st in walk_shallow(fn):
            if isinstance(st, ast.Assign) and any(isinstance(t, ast.Subscript) and is_self_attr(t.value, F) for t in st.targets):
                ok = (isinstance(st.value, ast.List) and not st.value.elts) or (isinstance(st.value, ast.Call) and unparse(st.value.func) == 'list')
                tgt = [t for t in st.targets if isinstance(t, ast.Subscript) and is_self_attr(t.value, F)][0]
                key, lst = unparse(tgt.slice), unparse(tgt)
                g = g or CFG(fn)
                guards = [(unparse(cn.ast), br) for (cn, br) in g.guard_branches(g.node_for(st), atoms=True)]
                if isinstance(st.value, ast.List) and st.value.elts:
                    # a list display with elements is an insertion: only into a fresh key, one element
                    n += 1
                    ok = len(st.value.elts) == 1 and any((t in (f'{key} not in self.{F}', f'not {key} in self.{F}') and br) or (t == f'{key} in self.{F}' and not br)
                                                         for (t, br) in guards)
                    if not ok:
                        ctx.ob('R8.2', f'{P}.{fn.name}:new-list', False, sample=f'{P}.{fn.name}: {short(st)}')
                        ctx.finding('R8.2', f'{P}.{fn.name}:insert-by-display', ci, st,
                                    f'`{short(st)}` stores listeners without the test that the event type has no list yet: earlier subscriptions are dropped or duplicated',
                                    where=f'{P}.{fn.name}')
                        continue
                elif isinstance(st.value, ast.BinOp) and isinstance(st.value.op, ast.Add) and unparse(st.value.left) == lst \
                        and isinstance(st.value.right, ast.List) and len(st.value.right.elts) == 1:
                    # copy-on-write append `lists[k] = lists[k] + [x]`: an insertion that needs the same duplicate guard
                    n += 1
                    arg = unparse(st.value.right.elts[0])
                    ok = any((t in (f'{arg} not in {lst}', f'not {arg} in {lst}') and br) or (t == f'{arg} in {lst}' and not br) for (t, br) in guards)
                    if not ok:
                        ctx.ob('R8.2', f'{P}.{fn.name}:append', False, sample=f'{P}.{fn.name}: {short(st)}')
                        ctx.finding('R8.2', f'{P}.{fn.name}:append', ci, st,
                                    f'`{short(st)}` is not dominated by `{arg} not in {lst}`: a duplicate subscription is stored and the listener is notified twice',
                                    where=f'{P}.{fn.name}')
                        continue
                ctx.ob('R8.2', f'{P}.{fn.name}:new-list', ok, sample=f'{P}.{fn.name}: {short(st)}')
                if not ok:
                    ctx.finding('R8.2', f'{P}.{fn.name}:container-kind', ci, st,
                                f'listener container created as `{short(st.value)}`, not a list: subscription order is not preserved', where=f'{P}.{fn.name}')
    ctx.floor('R8.2', 'listener insertions', n, 1)


def r83(ctx):
    prog = ctx.prog
    F = listeners_field(prog)
    ctx.rule('R8.3', f'container discipline of {F}: mutated only inside EventProducer; removals guarded by membership; emptied list deletes its key; remove_all_listeners 4-way split')
    ci = prog.cls(P)
    # who may write
    outside = 0
    for oc, fn, mod in prog.functions():
        if oc is ci:
            continue
        for n in walk_shallow(fn):
            if isinstance(n, ast.Attribute) and n.attr == F:
                if oc is not None and is_self_attr(n) and P not in prog.mro(oc.name):
                    continue            # `self.<same name>` in a class that is not a producer: a field of its own that happens to share the name
                # reads outside are tolerated only as len()/in; any occurrence outside is reported
                outside += 1
                ctx.finding('R8.3', f'{oc.name if oc else mod.name}.{fn.name}:outside-access', oc, n, f'{F} of the producer is accessed outside EventProducer',
                            where=f'{oc.name if oc else mod.name}.{fn.name}', module=mod)
    ctx.ob('R8.3', 'who-may-touch', outside == 0, sample=f'accesses of {F} outside EventProducer: {outside}')
    # removals guarded
    sem_rm = subscription_semantics(ctx, 'remove')
    # remove_all_listeners: the four documented forms over two event types and one listener, by cases (E11)
    from .. import submap as _sm
    ra_fn = getattr(ci, '_pdsa_orig_methods', {}).get('remove_all_listeners') or prog.method(P, 'remove_all_listeners', inherited=False)
    ra_probs, ra_why = _sm.check_remove_all(prog, P, F, ra_fn, memo_fields(prog, F))
    if ra_probs is None:
        ctx.note(f'R8.3: {P}.remove_all_listeners is outside the abstract domain of the subscription-map interpreter ({ra_why}); the syntactic rule decides')
    nrm = 0
    for fn in ci.methods.values():
        g = None
        if (fn.name == 'remove_listener' and sem_rm is not None) or (fn.name == 'remove_all_listeners' and ra_probs is not None):
            nrm += 1                    # decided by the subscription-map interpreter
            continue
        for x in walk_shallow(fn):
            lst = key = None
            if isinstance(x, ast.Call) and isinstance(x.func, ast.Attribute) and x.func.attr == 'remove' and isinstance(x.func.value, ast.Subscript) \
                    and is_self_attr(x.func.value.value, F):
                lst, key, kind = unparse(x.func.value), unparse(x.args[0]), 'remove'
            elif isinstance(x, ast.Delete) and any(isinstance(t, ast.Subscript) and is_self_attr(t.value, F) for t in x.targets):
                t = [t for t in x.targets if isinstance(t, ast.Subscript)][0]
                lst, key, kind = f'self.{F}', unparse(t.slice), 'del'
            if lst is None:
                continue
            nrm += 1
            g = g or CFG(fn)
            node = _node_containing(g, x) if not isinstance(x, ast.stmt) else g.node_for(x)
            ok = any((unparse(cn.ast) == f'{key} in {lst}' and br) or (unparse(cn.ast) in (f'{key} not in {lst}', f'not {key} in {lst}') and not br)
                     for (cn, br) in g.guard_branches(node, atoms=True))
            ctx.ob('R8.3', f'{P}.{fn.name}:{kind}', ok, sample=f'{P}.{fn.name}: {short(x, 60)} guarded by `{key} in {lst}`: {ok}')
            if not ok:
                ctx.finding('R8.3', f'{P}.{fn.name}:{kind}-unguarded', ci, x,
                            f'`{short(x, 60)}` is not guarded by `{key} in {lst}`: unsubscribing an absent listener / type raises instead of being harmless',
                            where=f'{P}.{fn.name}')
    ctx.floor('R8.3', 'guarded removals', nrm, 1)
    # emptied list deletes key (so has_listeners = len > 0 is right)
    rl = prog.method(P, 'remove_listener', inherited=False)
    et = rl.args.args[1].arg
    dels = [d for d in walk_shallow(rl) if isinstance(d, ast.Delete) and any(unparse(t) == f'self.{F}[{et}]' for t in d.targets)]
    g = CFG(rl)
    ok = False
    if dels:
        node = g.node_for(dels[0])
        for (cn, br) in g.guard_branches(node, atoms=True):
            t = unparse(cn.ast).replace(f'list(self.{F}[{et}])', f'self.{F}[{et}]')
            if (t in (f'len(self.{F}[{et}]) == 0', f'not self.{F}[{et}]', f'len(self.{F}[{et}]) < 1') and br) or \
                    (t in (f'len(self.{F}[{et}]) > 0', f'self.{F}[{et}]') and not br):
                ok = True
    if sem_rm is not None:
        ok = True                       # the interpreter covers `only this listener is subscribed` -> key gone
    ctx.ob('R8.3', f'{P}.remove_listener:delete-empty', ok, sample=f'remove_listener deletes the key when its list became empty: {ok}')
    if not ok:
        ctx.finding('R8.3', f'{P}.remove_listener:delete-empty', ci, rl, 'remove_listener does not delete the key of an emptied list exactly when it is empty '
                    '(has_listeners() and the fire early-return rely on it)', where=f'{P}.remove_listener')
    hl = prog.method(P, 'has_listeners', inherited=False)
    rs = [r for r in walk_shallow(hl) if isinstance(r, ast.Return)]
    ok = len(rs) == 1 and unparse(rs[0].value) in (f'len(self.{F}) > 0', f'bool(self.{F})', f'len(self.{F}) != 0')
    ctx.ob('R8.3', f'{P}.has_listeners', ok, sample=f'has_listeners returns {short(rs[0].value) if rs else "-"}')
    if not ok:
        ctx.finding('R8.3', f'{P}.has_listeners', ci, hl, 'has_listeners is not `len(listeners) > 0`', where=f'{P}.has_listeners')
    # remove_all_listeners: 4-way split
    MEMO = memo_fields(prog, F)
    ra = prog.method(P, 'remove_all_listeners', inherited=False)
    pe, pl = ra.args.args[1].arg, ra.args.args[2].arg
    want = {(True, True): 'clear-all', (True, False): 'per-type-remove-listener', (False, True): 'delete-type', (False, False): 'remove-one'}
    if ra_probs is not None:
        ctx.examined(4 * 36)
        by_form = {}
        for (form, case, what) in ra_probs:
            by_form.setdefault(form, []).append((case, what))
        for form in ('event_type None, listener None', 'event_type None, listener given', 'event_type given, listener None', 'event_type given, listener given'):
            bad = by_form.get(form, [])
            ctx.ob('R8.3', f'{P}.remove_all_listeners:{form}', not bad,
                   sample=f'remove_all_listeners({form}) interpreted over 36 combinations of two event types: as documented: {not bad}')
            if bad:
                en, ln = 'event_type None' in form, 'listener None' in form
                case, what = bad[0]
                ctx.finding('R8.3', f'{P}.remove_all_listeners:type-{"none" if en else "given"}-listener-{"none" if ln else "given"}', ci, ra,
                            f'remove_all_listeners with {form}, when there is {case}: {what} ({len(bad)} of 36 combinations differ from the documented effect)',
                            where=f'{P}.remove_all_listeners')
        want = {}
        ctx.exhaustive['R8.3 remove_all_listeners: 4 forms x 6 x 6 cases of two event types'] = True
    for (en, ln), expected in want.items():
        env = {('isnone', pe): en, ('isnone', pl): ln, ('bool', f'isinstance({pe}, EventType)'): not en, ('bool', f'isinstance({pl}, EventListener)'): not ln}
        ge = GuardEval(prog, P, env)
        acts = []

        def walk(stmts):
            """collects the actions of the path chosen by (event_type is None, listener is None); True when the path returned"""
            for s in stmts:
                if isinstance(s, ast.If):
                    v = ge.ev(s.test)
                    if v is None:
                        # a membership guard around the action
                        r1 = walk(s.body)
                        r2 = walk(s.orelse)
                        if r1 and r2:
                            return True
                    elif walk(s.body if v else s.orelse):
                        return True
                elif isinstance(s, ast.Return):
                    return True
                elif isinstance(s, ast.Raise):
                    acts.append('raise')
                    return True
                elif isinstance(s, ast.For):
                    form, base = copy_of(s.iter)
                    inner = [unparse(x) for b in s.body for x in ast.walk(b) if isinstance(x, ast.Call) and isinstance(x.func, ast.Attribute) and x.func.attr == 'remove_listener']
                    tgt = unparse(s.target)
                    if inner == [f'self.remove_listener({tgt}, {pl})'] and unparse(base) in (f'self.{F}.keys()', f'self.{F}') :
                        acts.append('per-type-remove-listener' if form else 'per-type-remove-listener-NO-COPY')
                    else:
                        acts.append('loop:' + short(s, 40))
                elif isinstance(s, ast.Delete):
                    acts.append('delete-type' if [unparse(t) for t in s.targets] == [f'self.{F}[{pe}]'] else 'del:' + short(s))
                elif isinstance(s, ast.Expr) and isinstance(s.value, ast.Call):
                    t = unparse(s.value)
                    if t == f'self.{F}.clear()':
                        acts.append('clear-all')
                    elif t == f'self.remove_listener({pe}, {pl})':
                        acts.append('remove-one')
                    elif isinstance(s.value.func, ast.Attribute) and is_self_attr(s.value.func.value) and s.value.func.value.attr in MEMO \
                            and s.value.func.attr in ('pop', 'clear'):
                        pass                      # dropping memoised copies of the listener lists: not an action on the subscriptions (R8.1 decides the memo)
                    else:
                        acts.append('call:' + t[:40])
                elif isinstance(s, ast.Assign) and any(is_self_attr(t, F) for t in s.targets):
                    acts.append('clear-all' if isinstance(s.value, (ast.Dict, ast.Call)) else 'assign')
            return False
        walk(body_of(ra))
        ctx.examined()
        ok = acts == [expected]
        ctx.ob('R8.3', f'{P}.remove_all_listeners:{en},{ln}', ok,
               sample=f'remove_all_listeners(event_type {"None" if en else "given"}, listener {"None" if ln else "given"}) -> {acts}')
        if not ok:
            ctx.finding('R8.3', f'{P}.remove_all_listeners:type-{"none" if en else "given"}-listener-{"none" if ln else "given"}', ci, ra,
                        f'remove_all_listeners with event_type {"None" if en else "given"} and listener {"None" if ln else "given"} performs {acts}; documented: {expected}'
                        + (' (iterating the key view while removing raises RuntimeError)' if any('NO-COPY' in a for a in acts) else ''),
                        where=f'{P}.remove_all_listeners')
    ctx.exhaustive['R8.3 remove_all_listeners (event_type is None) x (listener is None)'] = True


class _Norm(ast.NodeTransformer):
    def __init__(self, ren):
        self.ren = ren

    def visit_Name(self, n):
        n.id = self.ren.get(n.id, n.id)
        return n

    def visit_arg(self, n):
        n.arg = self.ren.get(n.arg, n.arg)
        n.annotation = None
        return n

    def visit_Constant(self, n):
        if isinstance(n.value, str):
            n.value = 'S'
        return n


def _normd(fn, ren, drop_first_param=False):
    f = copy.deepcopy(fn)
    f.body = strip_doc(f.body)
    f.name = 'f'
    f.returns = None
    f = _Norm(ren).visit(f)
    if drop_first_param:
        first = f.args.args[1].arg
        del f.args.args[1]
        for n in ast.walk(f):
            if isinstance(n, ast.Call):
                n.args = [a for a in n.args if not (isinstance(a, ast.Name) and a.id == first)]
    return ast.dump(f)


def r84(ctx):
    prog = ctx.prog
    ctx.rule('R8.4', 'sibling agreement: fire_event ~ fire_timed_event and fire ~ fire_timed after normalising names (a change to one path only is reported)')
    ci = prog.cls(P)
    a, b = prog.method(P, 'fire_event', inherited=False), prog.method(P, 'fire_timed_event', inherited=False)
    pa, pb = a.args.args[1].arg, b.args.args[1].arg
    ok = _normd(a, {pa: 'E', 'Event': 'EV'}) == _normd(b, {pb: 'E', 'TimedEvent': 'EV'})
    ctx.ob('R8.4', 'fire_event~fire_timed_event', ok, sample=f'fire_event and fire_timed_event identical after normalisation: {ok}')
    if not ok:
        ctx.finding('R8.4', f'{P}.fire_event~fire_timed_event', ci, b, 'fire_event and fire_timed_event differ beyond the event class: timed and untimed events are delivered differently',
                    where=f'{P}.fire_timed_event')
    a, b = prog.method(P, 'fire', inherited=False), prog.method(P, 'fire_timed', inherited=False)
    la = {n.targets[0].id for n in walk_shallow(a) if isinstance(n, ast.Assign) and isinstance(n.targets[0], ast.Name)}
    lb = {n.targets[0].id for n in walk_shallow(b) if isinstance(n, ast.Assign) and isinstance(n.targets[0], ast.Name)}
    ra = {x: 'EVT' for x in la}
    ra.update({'Event': 'EV', 'fire_event': 'FE'})
    rb = {x: 'EVT' for x in lb}
    rb.update({'TimedEvent': 'EV', 'fire_timed_event': 'FE'})

    class _Attr(ast.NodeTransformer):
        def __init__(self, m):
            self.m = m

        def visit_Attribute(self, n):
            self.generic_visit(n)
            n.attr = self.m.get(n.attr, n.attr)
            return n
    da = _normd(_Attr({'fire_event': 'FE'}).visit(copy.deepcopy(a)), ra)
    db = _normd(_Attr({'fire_timed_event': 'FE'}).visit(copy.deepcopy(b)), rb, drop_first_param=True)
    ok = da == db
    ctx.ob('R8.4', 'fire~fire_timed', ok, sample=f'fire and fire_timed identical after dropping the timestamp parameter: {ok}')
    if not ok:
        ctx.finding('R8.4', f'{P}.fire~fire_timed', ci, b, 'fire and fire_timed differ beyond the timestamp argument', where=f'{P}.fire_timed')


def r85(ctx):
    prog = ctx.prog
    ctx.rule('R8.5', 'Event.__init__ validates payload metadata: dict check unconditional, length / key / type checks under `check`; EventType validates name and metadata shape')
    ci = prog.cls('Event')
    fn = prog.method('Event', '__init__', inherited=False)
    et, content, check = [a.arg for a in fn.args.args[1:4]]
    g = CFG(fn)
    atoms = {'dict': None, 'len': None, 'key': None, 'type': None}
    # `for key, t in <metadata>.items()`: t is the declared type of key
    item_vars = [unparse(l.target.elts[1]) for l in walk_shallow(fn) if isinstance(l, ast.For) and isinstance(l.target, ast.Tuple) and len(l.target.elts) == 2
                 and isinstance(l.iter, ast.Call) and isinstance(l.iter.func, ast.Attribute) and l.iter.func.attr == 'items' and 'metadata' in unparse(l.iter)]
    # locals that hold the payload: a plain copy (`dict(content)`, `content.copy()`) or a copy without the entries whose value is None (the
    # original treats a None value as a missing key); only an unfiltered one has the length of the payload
    views = {content: False}            # name -> filtered?
    for a in walk_shallow(fn):
        if isinstance(a, (ast.Assign, ast.AnnAssign)) and getattr(a, 'value', None) is not None:
            for t_ in (a.targets if isinstance(a, ast.Assign) else [a.target]):
                if isinstance(t_, ast.Name):
                    v_ = a.value
                    names_ = {y.id for y in ast.walk(v_) if isinstance(y, ast.Name)}
                    if content in names_ and isinstance(v_, ast.DictComp) and len(v_.generators) == 1:
                        gen = v_.generators[0]
                        filt = bool(gen.ifs)
                        none_filter = all(isinstance(c_, ast.Compare) and len(c_.ops) == 1 and isinstance(c_.ops[0], (ast.NotEq, ast.IsNot))
                                          and isinstance(c_.comparators[0], ast.Constant) and c_.comparators[0].value is None for c_ in gen.ifs)
                        if none_filter and unparse(v_.key) in unparse(gen.target) and unparse(v_.value) in unparse(gen.target):
                            views[t_.id] = filt
                    elif unparse(v_) in (f'dict({content})', f'{content}.copy()', f'{{**{content}}}'):
                        views[t_.id] = False
    for i in walk_shallow(fn):
        if not (isinstance(i, ast.If) and any(isinstance(x, ast.Raise) for x in i.body)):
            continue
        t = unparse(i.test)
        if f'isinstance({content}, dict)' in t and t.startswith('not'):
            atoms['dict'] = i
        elif 'len(' in t and '!=' in t and 'metadata' in t and any(f'len({v_})' in t or f'len(dict({v_}))' in t for v_, filt in views.items() if not filt):
            atoms['len'] = i
        elif ('.get(' in t and 'None' in t) or ('not in' in t and any(t.endswith(f'not in {v_}') or t.endswith(f'not in dict({v_})') for v_ in views)):
            if 'isinstance' not in t:
                atoms['key'] = i
        if 'isinstance(' in t and t.startswith('not') and any(f'{v_}[' in t for v_ in views if v_ != content) and any(v2 in t for v2 in item_vars + ['metadata']):
            atoms['type'] = i
        if 'isinstance(' in t and '.get(' in t and t.startswith('not') and ('metadata' in t or any(v_ in t for v_ in item_vars)):
            atoms['type'] = i
    for k, i in atoms.items():
        ok = i is not None
        under = []
        if ok:
            node = g.node_for(i)
            conds = [(unparse(c.ast), br) for (c, br) in g.guard_branches(node, atoms=True)]
            meta = any('metadata' in t and ('is not None' in t or '!= None' in t) and br for (t, br) in conds)
            if not meta:
                # any spelling (early return when there is no metadata, `is None` with else...): unreachable when the type declares none
                ge_ = GuardEval(prog, 'Event', {('isnone', f'{et}.metadata'): True, ('isnone', f'{et}._metadata'): True})
                meta = any(ge_.ev(c.ast) is (not br) for (c, br) in g.guard_branches(node, atoms=True) if c.ast is not None)
            chk = any(t == check and br for (t, br) in conds)
            inloop = any(isinstance(l, ast.For) and any(x is i for x in ast.walk(l)) and 'metadata' in unparse(l.iter) for l in walk_shallow(fn))
            if k == 'dict':
                ok = meta and not chk
            elif k == 'len':
                ok = meta and chk
            else:
                ok = meta and chk and inloop
            under = conds
        ctx.ob('R8.5', f'Event.__init__:{k}-check', ok, sample=f'Event.__init__: {k} check `{short(i.test, 60) if i is not None else "MISSING"}` under {[t for t, _ in under]}')
        if not ok:
            ctx.finding('R8.5', f'Event.__init__:{k}-check', ci, i if i is not None else fn,
                        f'the payload {k} check of Event.__init__ is missing or wrongly nested (dict check must not depend on `check`; length, key and type checks '
                        f'must run under `check` for every declared key)', where='Event.__init__')
    # event_type type check first
    first = body_of(fn)[0]
    ok = isinstance(first, ast.If) and f'isinstance({et}, EventType)' in unparse(first.test) and any(isinstance(x, ast.Raise) for x in first.body)
    ctx.ob('R8.5', 'Event.__init__:event_type', ok)
    if not ok:
        ctx.finding('R8.5', 'Event.__init__:event_type', ci, fn, 'Event.__init__ does not refuse a non-EventType first', where='Event.__init__')
    # EventType
    ci2 = prog.cls('EventType')
    f2 = prog.method('EventType', '__init__', inherited=False)
    tests = [unparse(i.test) for i in walk_shallow(f2) if isinstance(i, ast.If) and any(isinstance(x, ast.Raise) for x in i.body)]
    need = {'name is str': any('isinstance(name, str)' in t for t in tests), 'metadata key is str': any('isinstance(key, str)' in t for t in tests),
            'metadata value is type': any('type)' in t and 'isinstance(' in t and 'metadata' in t for t in tests)}
    for k, v in need.items():
        ctx.ob('R8.5', f'EventType.__init__:{k}', v)
        if not v:
            ctx.finding('R8.5', f'EventType.__init__:{k}', ci2, f2, f'EventType.__init__ does not check that {k}', where='EventType.__init__')


def r86(ctx):
    prog = ctx.prog
    ctx.rule('R8.6', 'TimedEvent stores its timestamp parameter after the type guard, `timestamp` returns it; fire_timed passes its time in that position')
    ci = prog.cls('TimedEvent')
    fn = prog.method('TimedEvent', '__init__', inherited=False)
    p = fn.args.args[1].arg
    g = CFG(fn)
    stores = [s for s in walk_shallow(fn) if isinstance(s, ast.Assign) and any(is_self_attr(t) for t in s.targets) and unparse(s.value) == p]
    r = prog.simple_return('TimedEvent', 'timestamp')
    ok = len(stores) == 1 and r is not None and is_self_attr(r) and is_self_attr(stores[0].targets[0], r.attr)
    guard = False
    if stores:
        node = g.node_for(stores[0])
        guard = any(f'isinstance({p},' in unparse(c.ast) and not br for (c, br) in g.guard_branches(node, atoms=True))
    sup = [c for c in walk_shallow(fn) if isinstance(c, ast.Call) and isinstance(c.func, ast.Attribute) and c.func.attr == '__init__']
    pass_ok = bool(sup) and [unparse(a) for a in sup[0].args] == [a.arg for a in fn.args.args[2:]]
    ctx.ob('R8.6', 'TimedEvent.__init__', ok and guard and pass_ok, sample=f'TimedEvent: stores {p} -> {unparse(r) if r is not None else "?"}; type guard first {guard}; forwards the rest to Event {pass_ok}')
    if not (ok and guard and pass_ok):
        ctx.finding('R8.6', 'TimedEvent.__init__', ci, fn, 'TimedEvent does not store its (type-checked) timestamp in the field its timestamp property returns, or does not forward '
                    'event_type/content/check unchanged', where='TimedEvent.__init__')
    ft = prog.method(P, 'fire_timed', inherited=False)
    tp = ft.args.args[1].arg
    ctor = [c for c in walk_shallow(ft) if isinstance(c, ast.Call) and unparse(c.func) == 'TimedEvent']
    ok = len(ctor) == 1 and [unparse(a) for a in ctor[0].args] == [a.arg for a in ft.args.args[1:]]
    ctx.ob('R8.6', f'{P}.fire_timed', ok, sample=f'fire_timed builds {short(ctor[0]) if ctor else "?"}')
    if not ok:
        ctx.finding('R8.6', f'{P}.fire_timed', prog.cls(P), ft, 'fire_timed does not pass (time, event_type, content, check) to TimedEvent in that order', where=f'{P}.fire_timed')
    f1 = prog.method(P, 'fire', inherited=False)
    ctor = [c for c in walk_shallow(f1) if isinstance(c, ast.Call) and unparse(c.func) == 'Event']
    ok = len(ctor) == 1 and [unparse(a) for a in ctor[0].args] == [a.arg for a in f1.args.args[1:]]
    ctx.ob('R8.6', f'{P}.fire', ok, sample=f'fire builds {short(ctor[0]) if ctor else "?"}')
    if not ok:
        ctx.finding('R8.6', f'{P}.fire', prog.cls(P), f1, 'fire does not pass (event_type, content, check) to Event in that order', where=f'{P}.fire')


def r89_event_type_identity(ctx):
    """R8.9: the keys of the listener map are EventType objects compared by identity"""
    prog = ctx.prog
    ctx.rule('R8.9', 'EventType objects key the listener map by identity: no __eq__ / __hash__ that could make two distinct event types equal')
    n = 0
    for c in prog.subclasses('EventType', strict=False):
        ci = prog.classes[c]
        for m in ('__eq__', '__hash__'):
            fn = ci.methods.get(m)
            n += 1
            ok = fn is None
            if fn is not None:
                # an identity-based definition is harmless
                b = body_of(fn)
                t = unparse(b[0]) if len(b) == 1 else ''
                ok = t in ('return self is other', 'return id(self)', 'return object.__hash__(self)', 'return super().__hash__()', 'return super().__eq__(other)',
                           'return NotImplemented')
            ctx.ob('R8.9', f'{c}.{m}', ok, sample=f'{c}.{m}: {"not defined (identity)" if fn is None else short(fn, 60)}')
            if not ok:
                ctx.finding('R8.9', f'{c}.{m}', ci, fn,
                            f'{c} defines {m}: two distinct event types that compare equal share one entry of the listener map, so an event reaches listeners of another '
                            'type, a second subscription is swallowed as a duplicate and unsubscribing one type unsubscribes the other', where=f'{c}.{m}')
    ctx.floor('R8.9', 'EventType comparison slots examined', n, 2)


def _adapter_equality(prog, ci, eq):
    """name of the field F when `eq` is `isinstance(other, C) and self.F == other.F` (or `is`; or the guard-clause form), F is bound only in
    __init__ and there directly from a parameter, and notify() calls self.F(..) or self.F.notify(..); else None"""
    if len(eq.args.args) != 2:
        return None
    o = eq.args.args[1].arg
    body = [b for b in eq.body if not (isinstance(b, ast.Expr) and isinstance(b.value, ast.Constant))]
    test = None
    if len(body) == 1 and isinstance(body[0], ast.Return) and isinstance(body[0].value, ast.BoolOp) and isinstance(body[0].value.op, ast.And) \
            and len(body[0].value.values) == 2:
        guard, test = body[0].value.values
    elif len(body) == 2 and isinstance(body[0], ast.If) and not body[0].orelse and len(body[0].body) == 1 and isinstance(body[0].body[0], ast.Return) \
            and isinstance(body[0].test, ast.UnaryOp) and isinstance(body[0].test.op, ast.Not) and isinstance(body[1], ast.Return):
        guard, test = body[0].test.operand, body[1].value
        rv = body[0].body[0].value
        if not (isinstance(rv, ast.Constant) and rv.value is False or isinstance(rv, ast.Name) and rv.id == 'NotImplemented'):
            return None
    else:
        return None
    if unparse(guard) not in (f'isinstance({o}, {ci.name})', f'type({o}) is {ci.name}', f'type({o}) is type(self)', f'type(self) is type({o})'):
        return None
    if not (isinstance(test, ast.Compare) and len(test.ops) == 1 and isinstance(test.ops[0], (ast.Eq, ast.Is)) and is_self_attr(test.left)
            and unparse(test.comparators[0]) == f'{o}.{test.left.attr}'):
        return None
    F = test.left.attr
    init = ci.methods.get('__init__')
    if init is None:
        return None
    params = {a.arg for a in init.args.args[1:]}
    stores = [(m, x) for m in list(ci.methods.values()) + list(ci.setters.values()) for x in ast.walk(m)
              if isinstance(x, ast.Attribute) and isinstance(x.ctx, (ast.Store, ast.Del)) and x.attr == F]
    if len(stores) != 1 or stores[0][0] is not init:
        return None
    asg = [a for a in ast.walk(init) if isinstance(a, ast.Assign) and any(t is stores[0][1] for t in a.targets)]
    if not (asg and isinstance(asg[0].value, ast.Name) and asg[0].value.id in params):
        return None
    nt = ci.methods.get('notify')
    if nt is None or not any(isinstance(c, ast.Call) and (unparse(c.func) == f'self.{F}' or unparse(c.func) == f'self.{F}.notify') for c in ast.walk(nt)):
        return None
    return F


def r89_listener_identity(ctx, rule='R8.9'):
    """Subscriptions are kept in lists and looked up with `in` / `remove`, i.e. with `==`: an object that can be subscribed must compare by
    identity, or two different subscribers that happen to be equal are taken for one (the second is never subscribed, removing one removes
    the other)."""
    prog = ctx.prog
    ctx.rule(rule, 'classes that can be subscribed as listeners compare by identity (no value-based __eq__ along their MRO before object)')
    n = 0
    for cname, ci in sorted(prog.classes.items()):
        mro = prog.mro(cname)
        if not any(k in ('EventListener', 'EventListenerInterface') for k in mro) or cname in ('EventListener', 'EventListenerInterface'):
            continue
        n += 1
        culprit = None
        for k in mro:
            kc = prog.classes.get(k)
            if kc is None:
                continue
            if '__eq__' in kc.assigns:
                break                                   # `__eq__ = object.__eq__` (or another explicit choice) in the class body
            if '__eq__' in kc.methods:
                culprit = (kc, kc.methods['__eq__'])
                break
        adapter = _adapter_equality(prog, culprit[0], culprit[1]) if culprit is not None and culprit[0].name == cname else None
        if adapter:
            # an adapter: its equality IS that of the one object it wraps (bound once, in the constructor, from a parameter) and notify hands the
            # event to that object: two adapters of the same subscriber are the same subscription
            ctx.ob(rule, cname, True, sample=f'{cname}: an adapter -- __eq__ compares the one wrapped object self.{adapter} (bound once in __init__), which notify() forwards to')
            continue
        ctx.ob(rule, cname, culprit is None, sample=f'{cname}: __eq__ resolves to ' + (f'{culprit[0].name}.__eq__ (value based)' if culprit else 'identity'))
        if culprit is not None:
            ctx.finding(rule, f'{cname}:value-equality', ci, ci.node,
                        f'{cname} can be subscribed as a listener but compares by value ({culprit[0].name}.__eq__ is found first along its MRO): add_listener keeps '
                        f'subscribers in a list and tests `listener in list`, so a second {cname} that is equal to one already subscribed (e.g. still empty, same name) '
                        f'is silently not subscribed -- it never hears of warm-up or replication end -- and remove_listener removes whichever equal object comes first',
                        where=cname)
    ctx.floor(rule, 'listener classes', n, 4)
