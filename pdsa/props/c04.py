"""C04 -- simulator lifecycle: commands, states and notifications follow the protocol (DESIGN §3-C04)."""
from .. import simrules as S

EXPLANATION = (
    "Interprocedural refuse-before-effect analysis (forward may-dataflow 'an effect has happened' over the CFG of every "
    "command with self/super callees inlined; callee raises filtered by guard subsumption) proves that a refused command "
    "has written no field, mutated no container and fired no notification; admission tables of start / step / stop / "
    "run_up_to* / initialize are computed by exhaustive three-valued evaluation of the raise guards over RunState x "
    "ReplicationState x replication-present x (clock ? end) and compared with the documented protocol; notification "
    "shape rules (START/STOP pairing on all paths, once-only replication start/end under their state tests, TIME_CHANGED "
    "with the popped event's time, one warm-up per initialize); two race shapes (wait/clear order = lost wake-up; "
    "unsynchronised run-state write by a command admitted while the worker is active); optional-worker dereference; "
    "termination of the run thread. Outcomes of arbitrary interleavings are not decided: the code has no lock "
    "discipline to check against.")


def run(ctx):
    ctx.uses('simulator', 'pubsub', 'interfaces')
    ctx.trust('threading.Event contract (set/clear/wait)')
    # first: state shared between simulator objects (it makes every later anchor meaningless, so it is reported even when they vanish)
    S.shared_state(ctx, None, 'R4.10')
    sc = S.SimCtx(ctx.prog)
    S.r41_refuse_before_effect(ctx, sc)
    S.r42_admission_tables(ctx, sc)
    S.r43_notifications(ctx, sc)
    S.r44_wait_clear(ctx, sc)
    S.r45_clobber(ctx, sc)
    S.r46_optional_worker(ctx, sc)
    S.r47_termination(ctx, sc)
    S.wakeup_last(ctx, sc, 'R4.8')
    S.start_handshake(ctx, sc, 'R4.11')
    S.accepted_command_effect(ctx, 'R4.13')
    # time-changed notifications carry non-decreasing times: every clock write is monotone (shared rule with C02)
    S.r25_monotone_clock(ctx, sc)
    S.time_changed_sites(ctx, sc, 'R4.9')
    # an accepted command takes effect as requested: start / run_up_to / run_up_to_including run with their own bound (shared with C03)
    S.r31_horizon(ctx, sc)
    # every subscriber sees every notification: the dispatch iterates a snapshot of the list registered under the event type, so a
    # subscriber that unsubscribes while being notified cannot make the next one miss a STOP / END_REPLICATION (shared rule with C08)
    from . import c08
    c08.r81(ctx)
    # run-state guards and admission tests compare clock values: on a Duration clock these are the quantity comparisons (shared rule with
    # C01 / C02 / C03 / C16): a comparison that answers True for a NaN operand disables every `if not x >= y: raise` refusal
    from . import c16
    ctx.uses('units')
    c16.r166(ctx, None)
    # time-changed notifications are non-decreasing only if the event list hands out the pending minimum, also after a cancellation
    # (heap discipline and observers: shared rules with C01)
    # the warm-up notification "at the warm-up time", the refusal "warm-up before start" and the replication end come from the replication's
    # time accessors (shared rule with C02 / C03 / C06 / C11)
    ctx.uses('experiment')
    S.replication_frame(ctx, 'R4.12')
    from . import c01
    ctx.uses('eventlist')
    for cname_ in ctx.prog.subclasses('EventListInterface'):
        c01.check_eventlist(ctx, cname_)
