"""C12 -- random streams are reproducible, resettable, restorable, independent (DESIGN §3-C12)."""
from __future__ import annotations

import ast

from ..cfg import CFG
from ..core import AnalysisError, body_of, is_self_attr, short, unparse, walk_shallow

EXPLANATION = (
    "Ownership and wiring rules over every concrete StreamInterface class: the underlying generator field is assigned "
    "only in __init__ from a fresh Random() and never escapes (returned, aliased, passed on), so no two streams share "
    "generator state; streams.py and distributions.py call no module-level random.* function (no hidden global "
    "generator); every next_bool/next_float/next_int consumes exactly one underlying draw on every path (twin streams "
    "stay aligned under any interleaving of draw kinds); set_seed stores and seeds with the same value, reset re-seeds "
    "with the current seed, original seed is constructor-only; save_state/restore_state are getstate/setstate of the "
    "private generator. next_float hands out the generator draw itself ([0,1) by its contract); next_int(lo, hi) is "
    "proved to lie in [lo, hi] with both ends tight by symbolic affine bounds over the parameters (real arithmetic; the "
    "float rounding of (hi-lo+1)*u for ranges wider than 2**53 is not decided).")

RANDOM_FUNCS = {'random', 'seed', 'randint', 'randrange', 'choice', 'choices', 'shuffle', 'sample', 'uniform', 'gauss', 'normalvariate',
                'expovariate', 'betavariate', 'gammavariate', 'triangular', 'getrandbits', 'getstate', 'setstate', 'lognormvariate',
                'vonmisesvariate', 'paretovariate', 'weibullvariate', 'randbytes'}


def run(ctx):
    prog = ctx.prog
    ctx.uses('streams', 'distributions')
    ctx.trust('random.Random: seed(x) determines the sequence; random() in [0,1); getstate()/setstate() capture and restore the full state')
    concrete = [c for c in prog.subclasses('StreamInterface')]
    ctx.floor('R12', 'concrete stream classes', len(concrete), 1)
    for c in concrete:
        check_stream(ctx, c)
    no_global_random(ctx)
    # streams handed out by the stream-information classes must be objects of their own as well (class-level / module-level / default-argument
    # objects are one object for every model in the process)
    from ..statrules import shared_class_state
    shared_class_state(ctx, 'R12.9', sorted(c for c, ci in prog.classes.items() if ci.module.name == 'streams'),
                       'draws, re-seeding, reset and restore on one stream act on the stream of every other model: sequences are no longer a function of the seed alone')


def generator_field(prog, cname):
    init = prog.method(cname, '__init__', inherited=False)
    gens = []
    for n in walk_shallow(init):
        if isinstance(n, (ast.Assign, ast.AnnAssign)) and n.value is not None:
            tg = n.targets if isinstance(n, ast.Assign) else [n.target]
            if isinstance(n.value, ast.Call) and unparse(n.value.func) in ('Random', 'random.Random') and not n.value.args:
                gens += [t.attr for t in tg if is_self_attr(t)]
    if len(gens) != 1:
        raise AnalysisError(f'R12.1: {cname}.__init__ does not create exactly one private Random() generator field (found {gens})')
    return gens[0]


def r123_seed_wiring(ctx, c, ci=None, G=None):
    prog = ctx.prog
    ci = ci or prog.cls(c)
    G = G or generator_field(prog, c)
    isG = lambda n: is_self_attr(n, G)
    ctx.rule('R12.3', f'seed wiring of {c}: set_seed stores and seeds the same value; reset re-seeds with the current seed; original seed is constructor-only')
    ss = prog.method(c, 'set_seed', inherited=False)
    p = ss.args.args[1].arg
    seedf = prog.simple_return(c, 'seed')
    origf = prog.simple_return(c, 'original_seed')
    if seedf is None or origf is None or not is_self_attr(seedf) or not is_self_attr(origf):
        raise AnalysisError(f'anchor vanished: {c}.seed()/original_seed() do not return fields')
    from ..pathsum import PathSum, Unsupported as _Uns

    def seed_summary(fn_, env_):
        """[(stored current seed or None, stored original seed or None, [argument texts of self.G.seed(..) calls])] per accepted path"""
        outs = PathSum(prog, c, fn_, env_, inline_self=True).run()
        res = []
        for o in outs:
            if o.kind == 'raise':
                continue
            if any(isinstance(b_, str) for (_c, b_) in o.conds):
                raise _Uns('undecided condition')
            seeds_ = [unparse(k.args[0]) if k.args else '?' for k in o.calls if isinstance(k.func, ast.Attribute) and k.func.attr == 'seed' and isG(k.func.value)]
            res.append((unparse(o.store[seedf.attr]) if seedf.attr in o.store else None, unparse(o.store[origf.attr]) if origf.attr in o.store else None, seeds_))
        return res
    cur = f'self.{seedf.attr}'
    ot = f'self.{origf.attr}'
    # what a finished constructor leaves in the original-seed field: an int, never None (checked on the constructor below); the cases a
    # method can meet at entry are therefore "a non-zero int" and "0" (the distinction only matters to truth-value tests of the field)
    LIVE = [('a non-zero original seed', {('isnone', ot): False, ('bool', ot): True}),
            ('original seed 0', {ot: 0, ('isnone', ot): False, ('bool', ot): False})]
    try:
        rs_ = [(lab, r_) for (lab, env_) in LIVE for r_ in seed_summary(ss, env_)]
        ok = bool(rs_) and all(st_ == p and sd_ == [p] and o_ in (None, ot) for (_l, (st_, o_, sd_)) in rs_)
        shown = [r_ for (_l, r_) in rs_][:len(rs_) // 2 or 1]
        for (lab, (st_, o_, sd_)) in rs_:
            if st_ == p and sd_ == [p] and o_ not in (None, ot):
                ok = None
                ctx.ob('R12.3', f'{c}.set_seed', False, sample=f'{c}.set_seed({p}) with {lab}: original seed := {o_}')
                ctx.finding('R12.3', f'{c}.set_seed:writes-original-seed', ci, ss,
                            f'for a stream with {lab}, set_seed({p}) replaces the original seed by `{o_}`: the original seed is the one the stream was created with, '
                            f'and what the seed updaters compute from it then depends on which seeds were set earlier', where=f'{c}.set_seed')
                break
    except _Uns:
        stores = [n for n in walk_shallow(ss) if isinstance(n, (ast.Assign, ast.AnnAssign)) and any(is_self_attr(t, seedf.attr) for t in (n.targets if isinstance(n, ast.Assign) else [n.target]))]
        seeds = [x for x in walk_shallow(ss) if isinstance(x, ast.Call) and isinstance(x.func, ast.Attribute) and x.func.attr == 'seed' and isG(x.func.value)]
        ok = len(stores) == 1 and unparse(stores[0].value) == p and len(seeds) == 1 and len(seeds[0].args) == 1 and unparse(seeds[0].args[0]) in (p, unparse(seedf)) \
            and len(body_of(ss)) == 2
        shown = [short(s_) for s_ in body_of(ss)]
    if ok is not None:
        ctx.ob('R12.3', f'{c}.set_seed', ok, sample=f'{c}.set_seed({p}): (current seed, original seed, generator seeded with) per path = {shown}')
    if ok is False:
        ctx.finding('R12.3', f'{c}.set_seed', ci, ss, f'set_seed must store `{p}` as the current seed and seed the private generator with the same value, nothing else '
                    f'(summary per path: current seed, original seed, generator seeded with = {shown})', where=f'{c}.set_seed')
    rs = prog.method(c, 'reset', inherited=False)
    b = body_of(rs)
    try:
        rr_ = seed_summary(rs, {})
        ok = bool(rr_) and all(st_ in (None, cur) and sd_ == [cur] for (st_, _o, sd_) in rr_)
        shown = rr_
    except _Uns:
        ok = len(b) == 1 and unparse(b[0]) in (f'self.set_seed({unparse(seedf)})', f'self.{G}.seed({unparse(seedf)})')
        shown = [short(s_) for s_ in b]
    ctx.ob('R12.3', f'{c}.reset', ok, sample=f'{c}.reset: {shown}')
    if not ok:
        ctx.finding('R12.3', f'{c}.reset', ci, rs, f'reset must re-seed with the current seed `{unparse(seedf)}` (not the original seed, not a new one): {shown}', where=f'{c}.reset')
    for m, fn in ci.methods.items():
        for n in walk_shallow(fn):
            if is_self_attr(n, origf.attr) and isinstance(n.ctx, ast.Store):
                ok = m == '__init__' or _restores_own_field(prog, c, m, n, origf.attr)     # unpickling / copying re-creates the object: as the constructor does
                if not ok:
                    # a store that no constructed object can reach (it sits under "no original seed yet") writes nothing outside construction
                    try:
                        ok = all(o_ in (None, ot) for (_lab, env_) in LIVE for (_s, o_, _d) in seed_summary(fn, env_))
                    except _Uns:
                        ok = False
                    if m == 'set_seed' and not ok:
                        continue                  # reported above, with the case
                ctx.ob('R12.3', f'{c}.{m}:orig-seed-write', ok)
                if not ok:
                    ctx.finding('R12.3', f'{c}.{m}:writes-original-seed', ci, n, 'the original seed is written outside the constructor', where=f'{c}.{m}')
    init = prog.method(c, '__init__', inherited=False)
    g = CFG(init)
    calls = [x for x in walk_shallow(init) if isinstance(x, ast.Call) and isinstance(x.func, ast.Attribute) and is_self_attr(x.func) and x.func.attr == 'set_seed']
    ostore = [n for n in walk_shallow(init) if isinstance(n, (ast.Assign, ast.AnnAssign)) and any(is_self_attr(t, origf.attr) for t in (n.targets if isinstance(n, ast.Assign) else [n.target]))]
    ok = len(calls) == 1 and len(ostore) == 1 and unparse(calls[0].args[0]) == unparse(ostore[0].value)
    if not ok:
        # by cases (seed given / not given): original seed, current seed and the value the generator is seeded with are one and the same
        try:
            sp_ = init.args.args[1].arg
            allr = []
            for given in (True, False):
                env_ = {('isnone', sp_): not given, ('bool', f'isinstance({sp_}, int)'): True}
                allr += [(given, r_) for r_ in seed_summary(init, env_)]
            ok = bool(allr) and all(o_ is not None and o_ != 'None' and st_ == o_ and sd_ == [o_] and (not given or o_ == sp_) for (given, (st_, o_, sd_)) in allr)
        except _Uns:
            pass
    ctx.ob('R12.3', f'{c}.__init__', ok, sample=f'{c}.__init__: original seed := {short(ostore[0].value) if ostore else "?"}; {short(calls[0]) if calls else "no set_seed"}')
    if not ok:
        ctx.finding('R12.3', f'{c}.__init__:seed', ci, init, 'the constructor must remember the seed as original seed and seed the generator with the same value', where=f'{c}.__init__')



def check_stream(ctx, c):
    prog = ctx.prog
    ci = prog.cls(c)
    G = generator_field(prog, c)
    r121_private_generator(ctx, c, ci, G)
    isG = lambda n: is_self_attr(n, G)
    _after_r121(ctx, c, ci, G, isG)
    r1216_state_protocol(ctx, c)


def r121_private_generator(ctx, c, ci=None, G=None):
    """the generator object of a stream is its own: created in the constructor, never re-bound, never handed out (not even as a bound
    method kept in a field: a deep copy of the stream would keep drawing from the original's generator)"""
    prog = ctx.prog
    ci = ci or prog.cls(c)
    G = G or generator_field(prog, c)
    ctx.rule('R12.1', f'{c}.{G}: fresh Random() assigned only in __init__, never escapes')
    isG = lambda n: is_self_attr(n, G)
    # writers
    for m, fn in ci.methods.items():
        for n in walk_shallow(fn):
            if isG(n) and isinstance(n.ctx, (ast.Store, ast.Del)):
                ok = m == '__init__' or _restores_own_field(prog, c, m, n, G)
                ctx.ob('R12.1', f'{c}.{m}:write-{G}', ok, sample=f'{c}.{m} assigns {G}')
                if not ok:
                    ctx.finding('R12.1', f'{c}.{m}:rebinds-{G}', ci, n, f'the private generator {G} is re-bound outside __init__ (streams could come to share a generator)',
                                where=f'{c}.{m}')
            if isG(n) and isinstance(n.ctx, ast.Load):
                ctx.examined()
                esc = escape_context(fn, n)
                if esc and m == '__getstate__' and esc == 'stored in a container' and G in (state_protocol(prog, c)[0] or {}).values():
                    esc = None              # the state handed to pickle / copy, which rebuild the object from it (a shallow copy shares it as before)
                if esc:
                    ctx.ob('R12.1', f'{c}.{m}:escape', False)
                    ctx.finding('R12.1', f'{c}.{m}:escape-{G}', ci, n, f'the private generator {G} escapes ({esc}): its state can be shared or altered from outside the stream',
                                where=f'{c}.{m}')
    # class-level generator?
    for (name, v, st) in ci.all_assigns:
        if isinstance(v, ast.Call) and unparse(v.func) in ('Random', 'random.Random'):
            ctx.ob('R12.1', f'{c}:class-level-generator', False)
            ctx.finding('R12.1', f'{c}:class-level-{name}', ci, st, f'class-level generator {name} is shared by all {c} instances: draws from one stream alter the others', where=c)
    # outside access
    n_out = 0
    for oc, fn, mod in prog.functions():
        if oc is ci:
            continue
        for n in walk_shallow(fn):
            if isinstance(n, ast.Attribute) and n.attr == G:
                n_out += 1
                ctx.finding('R12.1', f'{oc.name if oc else mod.name}.{fn.name}:outside-{G}', oc, n, f'{G} of a stream is accessed outside {c}', module=mod,
                            where=f'{oc.name if oc else mod.name}.{fn.name}')
    ctx.ob('R12.1', f'{c}:who-may-touch', n_out == 0, sample=f'{c}.{G} is touched only inside {c}: {n_out == 0}')


def _after_r121(ctx, c, ci, G, isG):
    prog = ctx.prog
    # next_bool / next_int that delegate to self.next_float() draw what next_float draws: when next_float is exactly
    # `return self.G.random()` the delegation is replaced by that expression (matching form; next_float itself is checked below)
    nf = prog.simple_return(c, 'next_float')
    if nf is not None and unparse(nf) == f'self.{G}.random()' and not getattr(ci, '_pdsa_c12_done', False):
        import copy as _copy

        class _Deleg(ast.NodeTransformer):
            def visit_Call(self, node):
                self.generic_visit(node)
                if isinstance(node.func, ast.Attribute) and node.func.attr == 'next_float' and is_self_attr(node.func) and not node.args and not node.keywords:
                    return ast.copy_location(_copy.deepcopy(nf), node)
                return node
        for m_ in ('next_bool', 'next_int'):
            f_ = ci.methods.get(m_)
            if f_ is not None:
                _Deleg().visit(f_)
                ast.fix_missing_locations(f_)
        ci._pdsa_c12_done = True
    ctx.rule('R12.2', f'every next_* of {c} consumes exactly one draw of the private generator on every path')
    for m in ('next_bool', 'next_float', 'next_int'):
        fn = prog.method(c, m, inherited=False)
        g = CFG(fn)
        draws = [x for x in walk_shallow(fn) if isinstance(x, ast.Call) and isinstance(x.func, ast.Attribute) and isG(x.func.value)]
        loops = [x for x in walk_shallow(fn) if isinstance(x, (ast.For, ast.While, ast.ListComp, ast.GeneratorExp))]
        other = [x for x in walk_shallow(fn) if isinstance(x, ast.Call) and isinstance(x.func, ast.Attribute) and is_self_attr(x.func)
                 and x.func.attr.startswith('next_')]
        nodes = []
        for d in draws:
            for nd in g.stmt_nodes():
                if nd.ast is not None and any(y is d for y in ast.walk(nd.ast)):
                    nodes.append(nd)
        # exactly one draw on every path: each path passes some draw node, and no path passes two
        every = bool(nodes) and not g.reaches(g.entry, g.exit, avoid=nodes, labels_excluded=('exc', 'raise', 'reraise'))
        twice = any(g.reaches(a, b) for a in nodes for b in nodes if a is not b) or any(
            sum(1 for d in draws if any(y is d for y in ast.walk(nd.ast))) > 1 for nd in nodes)
        kinds = {d.func.attr for d in draws}
        ok = every and not twice and not loops and not other and kinds <= {'random'}
        ctx.ob('R12.2', f'{c}.{m}', ok, sample=f'{c}.{m}: {[short(d) for d in draws]}; one draw on every path: {every and not twice}')
        if not ok:
            ctx.finding('R12.2', f'{c}.{m}', ci, fn,
                        f'{m} does not consume exactly one {G}.random() on every path (draws {len(draws)}, on every path {every}, possibly two {twice}, loops {len(loops)}): '
                        f'equally seeded streams diverge when float/int/bool draws are interleaved differently', where=f'{c}.{m}')

    r125_translation_invariance(ctx, c, ci, G)
    # R12.6: next_float hands out the underlying draw unchanged ([0, 1) by the generator's contract); next_bool thresholds it
    ctx.rule('R12.6', f'{c}.next_float returns the generator draw itself; next_bool compares one draw with a constant')
    fn = prog.method(c, 'next_float', inherited=False)
    rs = [r for r in walk_shallow(fn) if isinstance(r, ast.Return)]
    ok = len(rs) == 1 and rs[0].value is not None and unparse(rs[0].value) == f'self.{G}.random()'
    ctx.ob('R12.6', f'{c}.next_float', ok, sample=f'{c}.next_float returns {short(rs[0].value) if rs else "-"}')
    if not ok:
        ctx.finding('R12.6', f'{c}.next_float', ci, fn, f'next_float does not return self.{G}.random() unchanged: the [0, 1) range (0 included, 1 excluded) is no longer the generator\'s contract',
                    where=f'{c}.next_float')
    fn = prog.method(c, 'next_bool', inherited=False)
    rs = [r for r in walk_shallow(fn) if isinstance(r, ast.Return)]
    ok = len(rs) == 1 and isinstance(rs[0].value, ast.Compare) and len(rs[0].value.ops) == 1 and \
        {unparse(rs[0].value.left), unparse(rs[0].value.comparators[0])} & {f'self.{G}.random()'} and \
        any(isinstance(x, ast.Constant) for x in (rs[0].value.left, rs[0].value.comparators[0]))
    ctx.ob('R12.6', f'{c}.next_bool', bool(ok), sample=f'{c}.next_bool returns {short(rs[0].value) if rs else "-"}')
    if not ok:
        ctx.finding('R12.6', f'{c}.next_bool', ci, fn, 'next_bool is not a comparison of one generator draw with a constant', where=f'{c}.next_bool')
    r127_int_range(ctx, c, ci, G)
    r123_seed_wiring(ctx, c, ci, G)
    init = prog.method(c, '__init__', inherited=False)
    g = CFG(init)

    ctx.rule('R12.8', f'{c}.__init__: a seed given by the caller is never replaced -- every local assignment that computes a seed (clock fallback) is reachable only when the seed parameter is None')
    sp = init.args.args[1].arg if len(init.args.args) > 1 else None
    if sp is None:
        raise AnalysisError(f'anchor vanished: {c}.__init__ has no seed parameter')
    from ..guards import GuardEval
    n8 = 0
    # locals that merely hold the parameter (x = seed) answer the guards like the parameter does
    aliases8 = {sp}
    for _r in range(3):
        for st in walk_shallow(init):
            if isinstance(st, (ast.Assign, ast.AnnAssign)) and isinstance(getattr(st, 'value', None), ast.Name) and st.value.id in aliases8:
                for t in (st.targets if isinstance(st, ast.Assign) else [st.target]):
                    if isinstance(t, ast.Name):
                        aliases8.add(t.id)
    for st in walk_shallow(init):
        if not isinstance(st, (ast.Assign, ast.AnnAssign, ast.AugAssign)) or getattr(st, 'value', None) is None:
            continue
        tg = st.targets if isinstance(st, ast.Assign) else [st.target]
        if not all(isinstance(t, ast.Name) for t in tg):
            continue
        names = {x.id for x in ast.walk(st.value) if isinstance(x, ast.Name)}
        calls = [x for x in ast.walk(st.value) if isinstance(x, ast.Call) and unparse(x.func) not in ('int',)]
        if not calls and not isinstance(st.value, (ast.BoolOp, ast.IfExp, ast.Constant)) and not isinstance(st, ast.AugAssign):
            continue                    # seed = seed, s = int(seed): the given value itself
        if not calls and isinstance(st.value, ast.Constant) and st.value.value is None:
            continue
        node = g.node_for(st)
        if node is None:
            continue
        n8 += 1
        gb = g.guard_branches(node, atoms=True)
        for given, truthy in ((0, False), (12345, True)):
            env8 = {}
            for nm in aliases8:
                env8.update({nm: given, ('bool', nm): truthy, ('isnone', nm): False})
            ge = GuardEval(prog, c, env8)
            refuted = any(ge.ev(cn.ast) is (not br) for cn, br in gb if cn.ast is not None)
            ctx.ob('R12.8', f'{c}.__init__:{short(st)}:seed={given}', refuted, sample=f'`{short(st)}` unreachable for seed={given}: guards {[(short(cn.ast), br) for cn, br in gb][:3]}')
            if not refuted:
                ctx.finding('R12.8', f'{c}.__init__:seed-replaced', ci, st,
                            f'`{short(st)}` computes a seed and is reachable when the caller passes seed={given}: a given seed is replaced (the stream is not reproducible from it); '
                            f'the fallback must be guarded by `{sp} is None`', where=f'{c}.__init__')
                break
    ctx.floor('R12.8', 'computed-seed assignments in the constructor', n8, 1)

    ctx.rule('R12.4', f'state wiring of {c}: save_state = generator.getstate(); restore_state(x) = generator.setstate(x)')
    sv = prog.method(c, 'save_state', inherited=False)
    b = body_of(sv)
    ok = len(b) == 1 and isinstance(b[0], ast.Return) and unparse(b[0].value) == f'self.{G}.getstate()'
    ctx.ob('R12.4', f'{c}.save_state', ok, sample=f'{c}.save_state: {[short(s) for s in b]}')
    if not ok:
        ctx.finding('R12.4', f'{c}.save_state', ci, sv, f'save_state must return self.{G}.getstate()', where=f'{c}.save_state')
    rs = prog.method(c, 'restore_state', inherited=False)
    p = rs.args.args[1].arg
    b = body_of(rs)
    ok = len(b) == 1 and unparse(b[0]) == f'self.{G}.setstate({p})'
    if not ok:
        # by path summaries: refusals may come first; every accepting path hands the given state -- the parameter itself, or a value built from
        # it and nothing else (tuple / list conversions of its parts) -- to setstate exactly once, and writes no field of the stream
        from ..pathsum import PathSum, Unsupported as _U4
        try:
            outs = [o for o in PathSum(prog, c, rs, {}, assume_validated=True, opaque_loops=True).run() if o.kind != 'raise']
            good = bool(outs)
            for o in outs:
                sets_ = [k for k in o.calls if isinstance(k.func, ast.Attribute) and k.func.attr == 'setstate' and isG(k.func.value)]
                others = [k for k in o.calls if k not in sets_ and not (isinstance(k.func, ast.Name) and k.func.id in ('tuple', 'list', 'int', 'float', 'len', 'isinstance', 'type'))
                          and not (isinstance(k.func, ast.Name) and k.func.id.endswith(('Error', 'Exception')))]
                def pure_helper(k):
                    """self.m(..) / Cls.m(..) of a method of this class that stores nothing and calls nothing but constructors of errors / builtins"""
                    if not (isinstance(k.func, ast.Attribute) and unparse(k.func.value) in ('self', c, 'type(self)')):
                        return False
                    r_ = prog.resolve(c, k.func.attr)
                    if not r_ or r_[1] is None:
                        return False
                    return not any((isinstance(x, (ast.Attribute, ast.Subscript)) and isinstance(x.ctx, (ast.Store, ast.Del)) and not isinstance(x.value, ast.Name))
                                   or (isinstance(x, ast.Attribute) and isinstance(x.ctx, ast.Store) and unparse(x.value) in ('self', 'cls', c))
                                   or isinstance(x, (ast.Global, ast.Nonlocal)) for x in ast.walk(r_[1]))
                others = [k for k in others if not pure_helper(k)]
                names = {x.id for k in sets_ for a_ in k.args for x in ast.walk(a_) if isinstance(x, ast.Name)} - {'tuple', 'list', 'int', 'float', 'len', 'self', c}
                if len(sets_) != 1 or others or o.store or not (names and all(nm == p or nm.startswith('__loop') for nm in names)):
                    good = False
            ok = good
        except _U4:
            pass
        if not ok:
            # the same obligation by interpretation on the contract value of Random.getstate() (E14): every accepting path performs exactly one
            # setstate on the generator, its argument is the given state (itself, or re-built from its parts), and nothing interpreted on the way
            # stores a field or calls anything else on the generator
            from ..contract import check_accepts as _ca, same_as as _same, Unsupported as _U14a
            try:
                _ref, _st, it14 = _ca(prog, c, rs)
                acc = [o for o in it14.outcomes if o.kind != 'raise']
                good = bool(acc)
                for o in acc:
                    if len(o.accepts) != 1 or not isG(o.accepts[0][0].func.value) or not _same(o.accepts[0][1], it14.contract):
                        good = False
                for f14 in it14.visited:
                    for x in ast.walk(f14):
                        if isinstance(x, ast.Attribute) and isinstance(x.ctx, (ast.Store, ast.Del)) and unparse(x.value) in ('self', 'cls', c):
                            good = False
                        if isinstance(x, ast.Subscript) and isinstance(x.ctx, (ast.Store, ast.Del)) and not isinstance(x.value, ast.Name):
                            good = False
                        if isinstance(x, ast.Call) and isinstance(x.func, ast.Attribute) and isG(x.func.value) and x.func.attr != 'setstate':
                            good = False
                        if isinstance(x, (ast.Global, ast.Nonlocal)):
                            good = False
                ok = good
            except _U14a:
                pass
    ctx.ob('R12.4', f'{c}.restore_state', ok, sample=f'{c}.restore_state: {[short(s) for s in b][:3]}')
    if not ok:
        ctx.finding('R12.4', f'{c}.restore_state', ci, rs, f'restore_state must call self.{G}.setstate({p}) and nothing else', where=f'{c}.restore_state')

    # R12.15: the state save_state hands out is a Random.getstate() value (R12.4); restore_state, interpreted on the contract of that value,
    # must not refuse it (E14, pdsa/contract.py)
    from ..contract import check_accepts, Unsupported as _U14
    ctx.trust('random.Random.getstate() returns (3, 624 words in [0, 2**32) followed by a position in [1, 624], None or a float) for every state reached by seeding and drawing (CPython _randommodule.c)')
    ctx.rule('R12.15', f'{c}.restore_state accepts every state {c}.save_state can hand out: interpreted on the contract of Random.getstate() -- '
                       f'(3, 624 words in [0, 2**32) + position in [1, 624], None or float) -- no refusal is reached through decided conditions')
    try:
        refusals, stats, _it = check_accepts(prog, c, rs)
        ctx.ob('R12.15', f'{c}.restore_state:contract', not refusals, sample=f'{c}.restore_state on the getstate() contract: {stats}')
        for node15, trail15 in refusals:
            ctx.finding('R12.15', f'{c}.restore_state:refuses-saved-state:{short(node15)[:60]}', ci, node15,
                        f'restore_state refuses a state that save_state hands out: `{short(node15)}` is reached for a genuine Random.getstate() value '
                        f'[{trail15}]; e.g. the position is 624 right after seeding / reset, 1..624 after a draw', where=f'{c}.restore_state')
    except _U14 as e15:
        ctx.note(f"R12.15: {c}.restore_state not interpreted on the contract ({e15}); no verdict from this rule")
        ctx.ob('R12.15', f'{c}.restore_state:contract', True, sample=f'not interpreted: {e15}')


def state_protocol(prog, c):
    """({key: field saved under it}, {field: key it is restored from, node}) for a class with `__getstate__` returning a dict display
    `{'k': self.f, ..}` and `__setstate__(self, state)` assigning `self.g = state['k']` / `state.get('k')`; (None, None) without the pair"""
    ci = prog.classes.get(c)
    gs, ss = ci.methods.get('__getstate__'), ci.methods.get('__setstate__')
    if gs is None or ss is None or len(ss.args.args) != 2:
        return None, None
    saved = {}
    for r in ast.walk(gs):
        d = r.value if isinstance(r, ast.Return) else (r.value if isinstance(r, ast.Assign) else None)
        if isinstance(d, ast.Dict):
            for k, v in zip(d.keys, d.values):
                if isinstance(k, ast.Constant) and isinstance(k.value, str) and is_self_attr(v):
                    saved[k.value] = v.attr
    sp = ss.args.args[1].arg
    restored = {}
    for a in ast.walk(ss):
        tg_ = a.targets[0] if isinstance(a, ast.Assign) and len(a.targets) == 1 else (a.target if isinstance(a, ast.AnnAssign) and a.value is not None else None)
        if tg_ is not None and is_self_attr(tg_):
            v = a.value
            key = None
            if isinstance(v, ast.Subscript) and isinstance(v.value, ast.Name) and v.value.id == sp and isinstance(v.slice, ast.Constant):
                key = v.slice.value
            elif isinstance(v, ast.Call) and isinstance(v.func, ast.Attribute) and v.func.attr == 'get' and isinstance(v.func.value, ast.Name) \
                    and v.func.value.id == sp and v.args and isinstance(v.args[0], ast.Constant):
                key = v.args[0].value
            if isinstance(key, str):
                restored.setdefault(tg_.attr, []).append((key, a))
    return saved, restored


def r1216_state_protocol(ctx, c):
    """Writer and reader of the pickled state agree: every field is restored from the key it was saved under."""
    prog = ctx.prog
    saved, restored = state_protocol(prog, c)
    if saved is None or not saved or not restored:
        return
    ci = prog.cls(c)
    ctx.rule('R12.16', f'{c}.__setstate__ restores every field from the key {c}.__getstate__ saved it under (writer / reader agreement of the pickled state)')
    for f, uses in sorted(restored.items()):
        for key, node in uses:
            ok = key not in saved or saved[key] == f
            ctx.ob('R12.16', f'{c}.__setstate__:{f}<-{key}', ok, sample=f'{c}.__setstate__: self.{f} <- state[{key!r}] (saved from self.{saved.get(key)})')
            if not ok:
                ctx.finding('R12.16', f'{c}.__setstate__:{f}-from-{key}', ci, node,
                            f'{c}.__setstate__ restores `self.{f}` from state[{key!r}], which __getstate__ filled from `self.{saved[key]}`: a stream rebuilt by pickle / '
                            f'copy carries the wrong {f} (reset() and seed() of the copy answer for another seed)', where=f'{c}.__setstate__')


def _restores_own_field(prog, c, m, node_store, field):
    """the store is `self.<field> = state[k]` in __setstate__ with k the key __getstate__ saved <field> under"""
    if m != '__setstate__':
        return False
    saved, restored = state_protocol(prog, c)
    if not saved:
        return False
    return any(saved.get(key) == field and any(t is node_store for t in (a.targets if isinstance(a, ast.Assign) else [a.target]))
               for (key, a) in restored.get(field, []))


def escape_context(fn, n):
    pm = {}
    for p in ast.walk(fn):
        for ch in ast.iter_child_nodes(p):
            pm[id(ch)] = p
    p = pm.get(id(n))
    if isinstance(p, ast.Attribute):
        gp = pm.get(id(p))
        if isinstance(gp, ast.Call) and gp.func is p:
            return None                 # self._random.method(...): a use
        # self._random.method taken as a value: the bound method carries the generator (a copy of the stream made with copy / deepcopy keeps
        # drawing from the original generator through it; whoever receives it draws behind the stream's back)
        if isinstance(gp, (ast.Assign, ast.AnnAssign, ast.NamedExpr)):
            return f'kept as the bound method `{unparse(p)}` (it carries the generator object)'
        if isinstance(gp, ast.Return):
            return f'returned as the bound method `{unparse(p)}`'
        if isinstance(gp, ast.Call):
            return f'passed on as the bound method `{unparse(p)}`'
        if isinstance(gp, (ast.Tuple, ast.List, ast.Dict, ast.Set)):
            return f'stored in a container as the bound method `{unparse(p)}`'
        return None
    if isinstance(p, ast.Return):
        return 'returned'
    if isinstance(p, (ast.Assign, ast.AnnAssign, ast.NamedExpr)):
        return 'aliased by assignment'
    if isinstance(p, ast.Call):
        return f'passed to {unparse(p.func)}()'
    if isinstance(p, (ast.Tuple, ast.List, ast.Dict, ast.Set)):
        return 'stored in a container'
    return None


def no_global_random(ctx):
    prog = ctx.prog
    ctx.rule('R12.1b', 'no module-level random.* function is called or imported in streams.py / distributions.py (no hidden shared generator)')
    n = 0
    for mname in ('streams', 'distributions'):
        mod = prog.module(mname)
        for st in ast.walk(mod.tree):
            if isinstance(st, ast.ImportFrom) and st.module == 'random':
                for a in st.names:
                    n += 1
                    ok = a.name == 'Random' or a.name == 'SystemRandom' and False
                    ctx.ob('R12.1b', f'{mname}:from-random-import-{a.name}', ok, sample=f'{mname}: from random import {a.name}')
                    if not ok:
                        ctx.finding('R12.1b', f'{mname}:import-{a.name}', None, st, f'`from random import {a.name}` brings the process-global generator into {mname}.py',
                                    module=mod, where=mname)
            if isinstance(st, ast.Call) and isinstance(st.func, ast.Attribute) and isinstance(st.func.value, ast.Name) and st.func.value.id == 'random' \
                    and st.func.attr in RANDOM_FUNCS:
                n += 1
                ctx.ob('R12.1b', f'{mname}:random.{st.func.attr}', False)
                ctx.finding('R12.1b', f'{mname}:random.{st.func.attr}', None, st,
                            f'`{short(st)}` uses the process-global generator: draws are shared between all streams and depend on everything else in the process',
                            module=mod, where=mname)
            if isinstance(st, ast.Call) and isinstance(st.func, ast.Name) and st.func.id in RANDOM_FUNCS - {'seed', 'sample', 'choice', 'random'} | {'random'} \
                    and any(isinstance(i, ast.ImportFrom) and i.module == 'random' and any(a.name == st.func.id for a in i.names) for i in ast.walk(mod.tree)):
                n += 1
                ctx.ob('R12.1b', f'{mname}:{st.func.id}()', False)
                ctx.finding('R12.1b', f'{mname}:{st.func.id}()', None, st, f'`{short(st)}` is a module-level random function (process-global generator)', module=mod, where=mname)
    ctx.ob('R12.1b', 'scan', True, sample=f'random-module references examined in streams.py/distributions.py: {n}')


def _ptype(e, ints):
    """'int' | 'float' | '?' : Python numeric type of an expression given the int-typed names"""
    if isinstance(e, ast.Constant):
        return 'int' if isinstance(e.value, int) and not isinstance(e.value, bool) else 'float' if isinstance(e.value, float) else '?'
    if isinstance(e, ast.Name):
        return 'int' if e.id in ints else '?'
    if isinstance(e, ast.UnaryOp):
        return _ptype(e.operand, ints)
    if isinstance(e, ast.BinOp):
        if isinstance(e.op, ast.Div):
            return 'float'
        a, b = _ptype(e.left, ints), _ptype(e.right, ints)
        if 'float' in (a, b):
            return 'float'
        if a == b == 'int':
            return 'int'
        return '?'
    if isinstance(e, ast.Call):
        f = unparse(e.func)
        if f in ('math.floor', 'math.ceil', 'int', 'round', 'math.trunc', 'len'):
            return 'int'
        if f in ('float', 'math.sqrt', 'math.log', 'math.exp') or f.endswith('.random') or f.endswith('.next_float'):
            return 'float'
    return '?'


def _coefs(e, names):
    """linear coefficients {name: k} of an int-typed +/- expression over the given names, or None if not linear"""
    if isinstance(e, ast.Name):
        return {e.id: 1} if e.id in names else {}
    if isinstance(e, ast.Constant):
        return {}
    if isinstance(e, ast.UnaryOp) and isinstance(e.op, (ast.USub, ast.UAdd)):
        c = _coefs(e.operand, names)
        return None if c is None else {k: (-v if isinstance(e.op, ast.USub) else v) for k, v in c.items()}
    if isinstance(e, ast.BinOp) and isinstance(e.op, (ast.Add, ast.Sub)):
        a, b = _coefs(e.left, names), _coefs(e.right, names)
        if a is None or b is None:
            return None
        out = dict(a)
        for k, v in b.items():
            out[k] = out.get(k, 0) + (v if isinstance(e.op, ast.Add) else -v)
        return out
    if any(isinstance(x, ast.Name) and x.id in names for x in ast.walk(e)):
        return None
    return {}


def r125_translation_invariance(ctx, c, ci, G):
    """R12.5: the float part of next_int may depend on the bounds only through their difference"""
    prog = ctx.prog
    ctx.rule('R12.5', f'{c}.next_int: the bounds enter floating-point arithmetic only through their (exact, integer) difference; lo is added as an exact integer outside the floor')
    fn = prog.method(c, 'next_int', inherited=False)
    lo, hi = fn.args.args[1].arg, fn.args.args[2].arg
    ints = {lo, hi}
    problems = []
    for b in walk_shallow(fn):
        if isinstance(b, ast.BinOp) and _ptype(b, ints) == 'float':
            for side in (b.left, b.right):
                if _ptype(side, ints) == 'int' and any(isinstance(x, ast.Name) and x.id in ints for x in ast.walk(side)):
                    co = _coefs(side, ints)
                    if co is None or sum(co.values()) != 0:
                        problems.append((b, f'`{short(side)}` (not a difference of the bounds) is converted to float in `{short(b, 60)}`'))
        if isinstance(b, ast.Call) and unparse(b.func) == 'float' and b.args and any(isinstance(x, ast.Name) and x.id in ints for x in ast.walk(b.args[0])):
            co = _coefs(b.args[0], ints)
            if co is None or sum(co.values()) != 0:
                problems.append((b, f'`{short(b)}` converts a bound to float'))
    rs = [r for r in walk_shallow(fn) if isinstance(r, ast.Return) and r.value is not None]
    for r in rs:
        if _ptype(r.value, ints) != 'int':
            problems.append((r, f'the returned value `{short(r.value, 60)}` is not computed in exact integer arithmetic'))
    ok = not problems
    ctx.ob('R12.5', f'{c}.next_int', ok, sample=f'{c}.next_int returns {[short(r.value, 70) for r in rs]}: position-independent float part: {ok}')
    for (node, msg) in problems[:2]:
        ctx.finding('R12.5', f'{c}.next_int:float-position', ci, node,
                    msg + ': for bounds of large magnitude (|lo| >= 2**52) the sum is rounded and integer draws leave the requested range', where=f'{c}.next_int')


def r127_int_range(ctx, c, ci, G):
    """R12.7: next_int(lo, hi) lies in [lo, hi] and both ends are reachable: symbolic affine bounds over lo, hi under lo <= hi"""
    from ..affine import Affine, Lin, straight_line_env
    prog = ctx.prog
    ctx.rule('R12.7', f'{c}.next_int(lo, hi): every returned value is an integer with lower bound exactly lo and upper bound exactly hi '
                      '(affine bounds over the parameters, draw in [0, 1), floor of an open upper bound loses one)')
    fn = prog.method(c, 'next_int', inherited=False)
    lo, hi = fn.args.args[1].arg, fn.args.args[2].arg
    draw = f'self.{G}.random()'
    rs = [r for r in walk_shallow(fn) if isinstance(r, ast.Return) and r.value is not None]
    if not rs:
        raise AnalysisError(f'anchor vanished: {c}.next_int returns nothing')
    # two cases so that the bounds are tight in each: a single-value range (hi == lo) and a proper range (hi >= lo + 1)
    cases = [('hi == lo', [(Lin(0, {hi: 1, lo: -1}), False), (Lin(0, {hi: -1, lo: 1}), False)]), ('hi > lo', [(Lin(-1, {hi: 1, lo: -1}), False)])]
    for (case, assumptions), r in [(cs, r) for cs in cases for r in rs]:
        ctx.examined()
        t = unparse(r.value)
        if t in (f'self.{G}.randint({lo}, {hi})', f'self.{G}.randrange({lo}, {hi} + 1)'):
            ctx.ob('R12.7', f'{c}.next_int', True, sample=f'{c}.next_int returns {t}: range by the generator contract')
            continue
        aff = Affine({lo: True, hi: True}, assumptions=assumptions, units={draw: True})
        env = straight_line_env(aff, fn)
        v = aff.eval(r.value, env)
        L, H = Lin(0, {lo: 1}), Lin(0, {hi: 1})
        problems = []
        if not v.isint:
            problems.append('the value is not known to be an integer')
        if v.lb is None or not aff.le(L, v.lb[0]):
            problems.append(f'no proof that the value is >= {lo} (lower bound {v.lb[0] if v.lb else "unknown"})')
        elif v.lb[0] != L:
            problems.append(f'the value is always >= {v.lb[0]}: {lo} itself is never returned')
        if v.ub is None or not aff.le(v.ub[0], H):
            problems.append(f'no proof that the value is <= {hi} (upper bound {v.ub[0] if v.ub else "unknown"})')
        elif v.ub[0] != H:
            problems.append(f'the value is always <= {v.ub[0]}: {hi} itself is never returned')
        ok = not problems
        ctx.ob('R12.7', f'{c}.next_int:{case}', ok, sample=f'{c}.next_int returns `{short(r.value, 60)}` in {v} when {case}')
        if not ok:
            ctx.finding('R12.7', f'{c}.next_int:range', ci, r, f'next_int({lo}, {hi}) = `{short(r.value, 70)}` has bounds {v} when {case}: ' + '; '.join(problems) +
                        (f' [not bounded: {aff.unknown[:2]}]' if aff.unknown else ''), where=f'{c}.next_int')
