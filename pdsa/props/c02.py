"""C02 -- DEVS execution: each scheduled event runs exactly once, in order, clock = event time (DESIGN §3-C02)."""
from .. import simrules as S
from . import c01

EXPLANATION = (
    "Path rules on the CFG of the simulator: for every pop_first() site a typestate automaton (popped -> clock set to "
    "the event's time -> executed) is solved over all paths including exception edges and loop back-edges; the "
    "admission guard in front of every <eventlist>.add is turned into a raise-set over the finite domain "
    "{past, now, future, unordered(NaN)} and must equal {past, NaN} (negative/NaN delays likewise); no time-valued "
    "expression may be compared with a bare literal (Duration clocks); every clock write is a reset, a popped event's "
    "time, or guarded by new >= old; cancel removes exactly its argument. With C01 this gives: every admitted, "
    "uncancelled event within the horizon runs exactly once, in key order, at its own time. Handler programs' own "
    "behaviour is not decided.")


def run(ctx):
    ctx.uses('simulator', 'simevent', 'eventlist')
    ctx.trust('C01 (pop_first returns the minimum of the pending events)')
    ctx.assume('user handlers reach the simulator only through its public methods')
    # first: state shared between simulator / event-list objects (reported even when later anchors vanish because of it)
    S.shared_state(ctx, None, 'R2.8')
    sc = S.SimCtx(ctx.prog)
    S.r21_typestate(ctx, sc)
    S.r23_admission(ctx, sc)
    S.r24_literal_compare(ctx, sc)
    S.r25_monotone_clock(ctx, sc)
    S.r26_cancel(ctx, sc)
    # cancelling and popping go through the event list: its heap discipline is a necessary condition here too (shared rule, same keys as C01)
    for cname in ctx.prog.subclasses('EventListInterface'):
        c01.check_eventlist(ctx, cname)
    # ... and ties are broken by the priority / creation order the events were given (shared rules with C01)
    c01.r13_key_immutable(ctx)
    c01.r14_counter(ctx)
    # admission and horizon tests compare clock values, quantities on Duration clocks (shared rule with C01 / C16)
    from . import c16
    ctx.uses('units')
    c16.r166(ctx, None)
    # the horizon within which events run is what the replication reports as its end time (shared rule with C03 / C06 / C11)
    ctx.uses('experiment')
    S.replication_frame(ctx, 'R2.9')
    S.plain_number_tests(ctx, 'R2.10')
