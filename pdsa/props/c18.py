"""C18 -- input parameters always hold a valid value, addressable by their dotted key (DESIGN §3-C18)."""
from __future__ import annotations

import ast
import copy
import itertools

from ..cfg import CFG
from ..core import AnalysisError, body_of, is_self_attr, is_super_call, short, unparse, walk_shallow
from ..effects import RBE, Subst
from ..guards import GuardEval, RAISE, eval_decision_list
from ..simrules import _node_containing, raise_guards_before, rbe_check

EXPLANATION = (
    "Guard-dominance rules over every set_value override of the InputParameter hierarchy: each store to the value field "
    "is dominated by a read-only refusal and by the class's own type / bounds / option guards; the guards the "
    "constructor applies to the default value are mapped (default_value -> value, constructor parameters -> the fields "
    "they are stored in) and each must have a counterpart in the setter, compared as normalised guard atoms rather than "
    "text; default value, read-only flag and key are written only by the base constructor; no store anywhere in the "
    "package targets a property without a setter (AttributeError on every execution); a parameter is registered in its "
    "parent only after the last validation of its constructor chain; the map refuses duplicate keys before inserting and "
    "re-sorts with a stable sort on the parameter order; the six ordering operators compare display_priority with the "
    "matching operator; a refused set_value changes nothing. Retrieval/removal by dotted key on arbitrary trees "
    "(recursive string processing) is not decided.")

ROOT = 'InputParameter'


def run(ctx):
    prog = ctx.prog
    ctx.uses('parameters', 'model')
    prog.cls(ROOT)
    r181_182(ctx)
    r183(ctx)
    r184(ctx)
    r185(ctx)
    r186(ctx)
    r187(ctx)
    r1812_extended_key(ctx)
    from ..statrules import memo_soundness
    memo_soundness(ctx, 'R18.13', ['parameters'])
    r1814_declared_bounds(ctx)
    from ..statrules import shared_class_state
    shared_class_state(ctx, 'R18.11', sorted(c for c, ci in ctx.prog.classes.items() if ci.module.name == 'parameters'),
                       'children added to one parameter map (or options of one selection parameter) appear in every other one')
    ctx.rule('R18.8', 'a rejected set_value / add leaves the parameter (map) unchanged (refuse-before-effect)')
    classes = [c for c in prog.subclasses(ROOT, strict=False) if 'set_value' in prog.classes[c].methods]
    rbe = RBE(prog)
    for c in classes:
        rbe_check(ctx, 'R18.8', c, ['set_value'], 'rejected value has already been stored', rbe=rbe)
    rbe_check(ctx, 'R18.8', 'InputParameterMap', ['add'], 'refused add has already changed the map', rbe=rbe)
    model_roundtrip(ctx)
    r1810_dotted_key(ctx)


def value_field(prog):
    r = prog.simple_return(ROOT, 'value')
    if r is None or not is_self_attr(r):
        raise AnalysisError('anchor vanished: InputParameter.value is not a property returning a field')
    return r.attr


# --------------------------------------------------------------------------- guard atoms
def accept_atoms(cond, subst=None):
    """normalise the *acceptance* condition of `if cond: raise` into a set of atoms, or None if the form is not recognised"""
    c = Subst(subst).visit(copy.deepcopy(cond)) if subst else cond
    # acceptance = not cond
    if isinstance(c, ast.UnaryOp) and isinstance(c.op, ast.Not):
        return pos_atoms(c.operand)
    if isinstance(c, ast.Compare) and len(c.ops) == 1 and isinstance(c.ops[0], ast.NotIn):
        return {('in', unparse(c.left), unparse(c.comparators[0]))}
    if isinstance(c, ast.BoolOp) and isinstance(c.op, ast.Or):
        out = set()
        for v in c.values:
            a = accept_atoms(v)
            if a is None:
                return None
            out |= a
        return out
    if isinstance(c, ast.Compare) and len(c.ops) == 1 and isinstance(c.ops[0], (ast.Lt, ast.LtE, ast.Gt, ast.GtE)):
        # refusal on `x < y`: the accepted set is "not (x < y)", which -- unlike `y <= x` -- also contains NaN
        l, r = unparse(c.left), unparse(c.comparators[0])
        if isinstance(c.ops[0], (ast.Gt, ast.GtE)):
            l, r = r, l
        return {('ncmp', l, '<' if isinstance(c.ops[0], (ast.Lt, ast.Gt)) else '<=', r)}
    if isinstance(c, ast.Attribute) or isinstance(c, ast.Name):
        return {('false', unparse(c))}
    return None


def pos_atoms(e):
    if isinstance(e, ast.Call) and unparse(e.func) == 'isinstance' and len(e.args) == 2:
        t = e.args[1]
        types = frozenset(unparse(x) for x in t.elts) if isinstance(t, ast.Tuple) else frozenset([unparse(t)])
        return {('isinstance', unparse(e.args[0]), types)}
    if isinstance(e, ast.BoolOp) and isinstance(e.op, ast.Or) and all(isinstance(v, ast.Call) and unparse(v.func) == 'isinstance' for v in e.values) \
            and len({unparse(v.args[0]) for v in e.values}) == 1:
        types = frozenset()
        for v in e.values:
            t = v.args[1]
            types |= frozenset(unparse(x) for x in t.elts) if isinstance(t, ast.Tuple) else frozenset([unparse(t)])
        return {('isinstance', unparse(e.values[0].args[0]), types)}
    if isinstance(e, ast.BoolOp) and isinstance(e.op, ast.And):
        out = set()
        for v in e.values:
            a = pos_atoms(v)
            if a is None:
                return None
            out |= a
        return out
    if isinstance(e, ast.Compare):
        out = set()
        ops = {ast.Lt: '<', ast.LtE: '<=', ast.Gt: '>', ast.GtE: '>=', ast.In: 'in', ast.Eq: '=='}
        operands = [e.left] + list(e.comparators)
        for a, op, b in zip(operands, e.ops, operands[1:]):
            if type(op) not in ops:
                return None
            if isinstance(op, ast.In):
                out.add(('in', unparse(a), unparse(b)))
            elif isinstance(op, (ast.Gt, ast.GtE)):
                out.add(('cmp', unparse(b), '<' if isinstance(op, ast.Gt) else '<=', unparse(a)))
            else:
                out.add(('cmp', unparse(a), ops[type(op)], unparse(b)))
        return out
    return None


def r181_182(ctx):
    prog = ctx.prog
    V = value_field(prog)
    ctx.rule('R18.1', f'every store to {V} in a set_value override is dominated by a read-only refusal and by a type guard (plus bounds/options guards where the class has such fields)')
    ctx.rule('R18.2', 'setter validation covers constructor validation: every guard the constructor applies to the default value has a counterpart in set_value')
    classes = [c for c in prog.subclasses(ROOT, strict=False)]
    n = 0
    for c in classes:
        ci = prog.cls(c)
        sv = ci.methods.get('set_value')
        if sv is None:
            continue
        n += 1
        vp = sv.args.args[1].arg
        g = CFG(sv)
        stores = [st for st in walk_shallow(sv) if isinstance(st, (ast.Assign, ast.AugAssign, ast.AnnAssign))
                  and any(is_self_attr(t, V) for t in (st.targets if isinstance(st, ast.Assign) else [st.target]))]
        always_raises = not g.reaches(g.entry, g.exit, labels_excluded=('exc', 'raise', 'reraise'))
        if not stores:
            ok = always_raises
            ctx.ob('R18.1', f'{c}.set_value', ok, sample=f'{c}.set_value never stores a value' + (' (always refuses)' if always_raises else ''))
            if not ok:
                ctx.finding('R18.1', f'{c}.set_value:no-store', ci, sv, 'set_value neither stores the value nor refuses', where=f'{c}.set_value')
            continue
        # an accepted value is stored: no path from the entry to a normal exit avoids every store (`if old == value: return` in front of the
        # store keeps the old object -- another type, unit or sign of zero -- although set_value accepted the new one)
        snodes = [g.node_for(st) for st in stores]
        if all(x is not None for x in snodes):
            # a `return` whose own guards contradict each other (`if self._read_only: raise` above, `if self._read_only: return` below: a
            # defensive clause that cannot be reached) is no exit
            dead = []
            for r_ in [x for x in walk_shallow(sv) if isinstance(x, ast.Return)]:
                rn_ = g.node_for(r_)
                if rn_ is None:
                    continue
                seen_ = {}
                for (cn_, br_) in g.guard_branches(rn_, atoms=True):
                    from ..guards import ctext as _ctext
                    t_ = _ctext(prog, c, cn_.ast)               # `self.read_only` (a property returning the field) is `self._read_only`
                    if seen_.setdefault(t_, br_) != br_:
                        dead.append(rn_)
                        break
            skipped = g.reaches(g.entry, g.exit, avoid=snodes + dead, labels_excluded=('exc', 'raise', 'reraise'))
            ctx.ob('R18.1', f'{c}.set_value:stored-on-every-accepting-path', not skipped, sample=f'{c}.set_value: a normal exit without a store of {V} is reachable: {skipped}')
            if skipped:
                ctx.finding('R18.1', f'{c}.set_value:accepted-but-not-stored', ci, stores[0],
                            f'{c}.set_value can return normally without storing the value (a path around `{short(stores[0])}`): a value that was accepted is not '
                            f'the value get_value() returns afterwards (an equal value of another type, unit or sign of zero keeps the old object)', where=f'{c}.set_value')
        setter_atoms = set()
        for st in stores:
            node = g.node_for(st)
            rg = raise_guards_before(g, node)
            ro = False
            for (cd, br) in rg:
                ge = GuardEval(prog, c, {'self._read_only': True, ('bool', 'self._read_only'): True})
                r = ge.ev(cd)
                if r is not None and r != br:
                    ro = True
            atoms = set()
            unknown = []
            for (cd, br) in rg:
                a = accept_atoms(cd) if not br else pos_atoms(cd)
                if a is None:
                    unknown.append(short(cd, 40))
                else:
                    atoms |= a
            setter_atoms |= atoms
            stores_param = unparse(st.value) == vp if getattr(st, 'value', None) is not None else False
            typed = any(a[0] == 'isinstance' and a[1] == vp for a in atoms)
            need_type = c != ROOT
            ok = ro and stores_param and (typed or not need_type)
            ctx.ob('R18.1', f'{c}.set_value:{V}', ok,
                   sample=f'{c}.set_value: {short(st)} dominated by read-only guard {ro}, type guard {typed}, guards {sorted(str(a) for a in atoms)[:4]}')
            if not ro:
                ctx.finding('R18.1', f'{c}.set_value:read-only', ci, st,
                            f'`{short(st)}` is not dominated by a refusal for read-only parameters: a read-only {c} can be changed', where=f'{c}.set_value')
            if need_type and not typed:
                ctx.finding('R18.1', f'{c}.set_value:type-guard', ci, st, f'`{short(st)}` is not dominated by an isinstance check of `{vp}`: the parameter can hold a value of the wrong type',
                            where=f'{c}.set_value')
            if not stores_param:
                ctx.finding('R18.1', f'{c}.set_value:stored-value', ci, st, f'set_value stores `{short(st.value)}` instead of the validated argument `{vp}`', where=f'{c}.set_value')
        # ---- R18.2: constructor guards on the default value
        init = ci.methods.get('__init__')
        if init is None:
            continue
        params = [a.arg for a in init.args.args[1:]] + [a.arg for a in init.args.kwonlyargs]
        if 'default_value' not in params:
            continue
        field_of = {}
        for st in walk_shallow(init):
            if isinstance(st, (ast.Assign, ast.AnnAssign)) and getattr(st, 'value', None) is not None:
                for t in (st.targets if isinstance(st, ast.Assign) else [st.target]):
                    if is_self_attr(t) and isinstance(st.value, ast.Name) and st.value.id in params:
                        field_of[st.value.id] = ast.Attribute(value=ast.Name(id='self', ctx=ast.Load()), attr=t.attr, ctx=ast.Load())
        narrowing = {}      # type name in ctor guard -> field holding type(default_value)
        for st in walk_shallow(init):
            if isinstance(st, (ast.Assign, ast.AnnAssign)) and getattr(st, 'value', None) is not None and unparse(st.value) == 'type(default_value)':
                for t in (st.targets if isinstance(st, ast.Assign) else [st.target]):
                    if is_self_attr(t):
                        narrowing['*'] = f'self.{t.attr}'
        sub = dict(field_of)
        sub['default_value'] = ast.Name(id=vp, ctx=ast.Load())
        for i in walk_shallow(init):
            if not (isinstance(i, ast.If) and any(isinstance(x, ast.Raise) for x in i.body)):
                continue
            if 'default_value' not in {x.id for x in ast.walk(i.test) if isinstance(x, ast.Name)}:
                continue
            want = accept_atoms(i.test, sub)
            nan_note = []
            label = f'{c}:{short(i.test, 50)}'
            if want is None:
                # unrecognised form: require the same text in the setter
                t = unparse(Subst(sub).visit(copy.deepcopy(i.test)))
                ok = any(unparse(x.test) == t for x in walk_shallow(sv) if isinstance(x, ast.If))
                missing = [t] if not ok else []
            else:
                missing = []
                int_only = any(b[0] == 'isinstance' and b[1] == vp and b[2] <= frozenset(['int', 'bool']) for b in setter_atoms)
                for a in want:
                    if a in setter_atoms:
                        continue
                    if a[0] in ('cmp', 'ncmp'):
                        # `not (x < y)` and `y <= x` accept the same numbers but differ on NaN: equivalent only for int-typed values
                        twin = ('ncmp' if a[0] == 'cmp' else 'cmp', a[3], '<=' if a[2] == '<' else '<', a[1])
                        if twin in setter_atoms and (int_only or a[0] == 'ncmp'):
                            continue
                        if twin in setter_atoms:
                            nan_note.append(f'`{a[1]} {a[2]} {a[3]}` is checked as `not ({twin[1]} {twin[2]} {twin[3]})`, which NaN passes')
                    if a[0] == 'isinstance':
                        # narrowing accepted: setter checks a subset of the constructor's types, or the stored exact type
                        cands = [b for b in setter_atoms if b[0] == 'isinstance' and b[1] == a[1]]
                        if any(b[2] <= a[2] or ('*' in narrowing and b[2] == frozenset([narrowing['*']])) for b in cands):
                            continue
                    missing.append(a)
                ok = not missing
            ctx.ob('R18.2', label, ok, sample=f'{c}.__init__ guard `{short(i.test, 60)}` has a counterpart in set_value: {ok}')
            if not ok:
                ctx.finding('R18.2', f'{c}.set_value:missing:{short(i.test, 40)}', ci, sv,
                            f'the constructor refuses a default value when `{short(i.test, 70)}`, but set_value has no corresponding check '
                            f'({[str(m) for m in missing]}{"; " + "; ".join(nan_note) if nan_note else ""}): a later set_value can store a value the constructor would have refused', where=f'{c}.set_value')
    ctx.floor('R18.1', 'set_value overrides', n, 7)


def r183(ctx):
    prog = ctx.prog
    ctx.rule('R18.3', 'default value, read-only flag and key are written only by InputParameter.__init__')
    fields = ('_default_value', '_read_only', '_key')
    nw = 0
    for oc, fn, mod in prog.functions():
        for n in walk_shallow(fn):
            if isinstance(n, ast.Attribute) and isinstance(n.ctx, (ast.Store, ast.Del)) and n.attr in fields:
                in_family = oc is not None and prog.is_subclass(oc.name, ROOT)
                if is_self_attr(n) and not in_family:
                    continue            # another class's own field of the same name (e.g. statistics keys)
                nw += 1
                ok = oc is not None and oc.name == ROOT and fn.name == '__init__' and is_self_attr(n)
                where_ = f'{oc.name}.{fn.name}' if oc else fn.name
                ctx.ob('R18.3', f'{where_}:{n.attr}', ok, sample=f'{where_} writes {unparse(n)}')
                if not ok:
                    ctx.finding('R18.3', f'{where_}:{n.attr}', oc, n, f'{n.attr} of a parameter is written outside InputParameter.__init__: '
                                + ('the default value can change' if n.attr == '_default_value' else 'a read-only parameter can be unlocked' if n.attr == '_read_only' else 'the key can change after registration'),
                                where=where_, module=mod)
    ctx.floor('R18.3', 'writers of write-once fields', nw, 3)
    for p in ('default_value', 'read_only', 'key'):
        for c in prog.subclasses(ROOT, strict=False):
            if p in prog.classes[c].setters:
                ctx.ob('R18.3', f'{c}.{p}:setter', False)
                ctx.finding('R18.3', f'{c}.{p}:setter', prog.cls(c), prog.classes[c].setters[p], f'property {p} has a setter', where=f'{c}.{p}')


def r184(ctx):
    prog = ctx.prog
    ctx.rule('R18.4', 'no attribute store targets a property that has no setter (AttributeError on every execution)')
    props = {}          # name -> [classes defining it as property], and whether any has a setter
    plain = set()       # attribute names assigned through self.<name> somewhere (ordinary fields)
    for c, ci in prog.classes.items():
        for p in ci.props:
            d = props.setdefault(p, {'classes': [], 'setter': False})
            d['classes'].append(c)
            if p in ci.setters:
                d['setter'] = True
    n = 0
    for oc, fn, mod in prog.functions():
        for st in walk_shallow(fn):
            if not (isinstance(st, ast.Attribute) and isinstance(st.ctx, ast.Store)):
                continue
            a = st.attr
            if a not in props:
                continue
            where_ = f'{oc.name}.{fn.name}' if oc else fn.name
            if is_self_attr(st) and oc is not None:
                # resolve in the MRO of the class: is `a` a property there, and does any class in the MRO give it a setter?
                isprop = prog.is_prop(oc.name, a)
                has_setter = any(a in prog.classes[k].setters for k in prog.mro(oc.name) if k in prog.classes)
                if not isprop:
                    continue
                n += 1
                ok = has_setter
            else:
                # foreign receiver: every class defining `a` defines it as a setter-less property and no class has a plain field `a`
                plain_field = any(a in {x.attr for f2 in ci2.methods.values() for x in walk_shallow(f2) if is_self_attr(x) and isinstance(x.ctx, ast.Store)}
                                  and a not in ci2.props and not prog.is_prop(k2, a) for k2, ci2 in prog.classes.items())
                n += 1
                ok = props[a]['setter'] or plain_field
            ctx.ob('R18.4', f'{where_}:{unparse(st)}', ok, sample=f'{where_}: store to `{unparse(st)}` ({"has setter / plain field" if ok else "setter-less property"})')
            if not ok:
                ctx.finding('R18.4', f'{where_}:{a}', oc, st,
                            f'`{unparse(st)} = ...` assigns to `{a}`, which every defining class ({props[a]["classes"][:3]}...) declares as a property without a setter: '
                            f'AttributeError on every execution', where=where_, module=mod)
    ctx.ob('R18.4', 'scan', True, sample=f'stores to property names examined: {n}')


def r185(ctx):
    prog = ctx.prog
    ctx.rule('R18.5', 'a parameter makes itself reachable from its parent only after the last validation of its constructor chain')
    classes = [c for c in prog.subclasses(ROOT, strict=False) if '__init__' in prog.classes[c].methods]

    def publishes(kind, text, node=None):
        # only effects that hand `self` to another object count for a constructor
        if kind != 'extern' or node is None:
            return True
        return not any(isinstance(a, ast.Name) and a.id == 'self' for a in node.args)
    rbe = RBE(prog, ignore_effect=publishes)
    for c in classes:
        s, viol = rbe.check(c, '__init__')
        ctx.examined(len(s['raises']) + 1)
        ok = not viol
        ctx.ob('R18.5', f'{c}.__init__', ok, sample=f'{c}.__init__: {len(s["raises"])} validation raises; raises reachable after self was handed to the parent: {len(viol)}')
        if not ok:
            ci = prog.cls(c)
            v = viol[0]
            ctx.finding('R18.5', f'{c}.__init__:publish-before-validate', ci, v.site.node,
                        f'{c}.__init__ can still refuse (`{v.site.text}` and {len(viol) - 1} more) after `{v.effect}` at {v.effect_where}:{v.effect_line}: '
                        f'a parameter whose constructor raised stays registered in its parent map with an invalid value',
                        where=f'{c}.__init__', extra={'raises_after_publish': [x.site.text for x in viol]})
    ctx.floor('R18.5', 'parameter constructors', len(classes), 8)


def r186(ctx):
    prog = ctx.prog
    ctx.rule('R18.6', 'InputParameterMap.add refuses a duplicate key before inserting and re-sorts with a stable sort on the parameter order')
    ci = prog.cls('InputParameterMap')
    fn = prog.method('InputParameterMap', 'add', inherited=False)
    p = fn.args.args[1].arg
    g = CFG(fn)
    V = value_field(prog)
    ins = [st for st in walk_shallow(fn) if isinstance(st, ast.Assign) and isinstance(st.targets[0], ast.Subscript) and is_self_attr(st.targets[0].value, V)]
    ok = False
    if ins:
        node = g.node_for(ins[0])
        key = unparse(ins[0].targets[0].slice)
        for (cd, br) in raise_guards_before(g, node):
            t = unparse(cd)
            if t in (f'{key} in self.{V}.keys()', f'{key} in self.{V}') and not br:
                ok = True
        ok = ok and unparse(ins[0].value) == p and key == f'{p}.key'
    ctx.ob('R18.6', 'add:duplicate-guard', ok, sample=f'add: {short(ins[0]) if ins else "no insertion"} dominated by duplicate-key refusal: {ok}')
    if not ok:
        ctx.finding('R18.6', 'InputParameterMap.add:duplicate-guard', ci, fn, 'add does not refuse a duplicate key before inserting the parameter under its own key', where='InputParameterMap.add')
    sorts = [x for x in walk_shallow(fn) if isinstance(x, ast.Call) and unparse(x.func) == 'sorted']
    ok = False
    if len(sorts) == 1:
        s = sorts[0]
        kw = {k.arg: k.value for k in s.keywords}
        rev = kw.get('reverse')
        keyf = kw.get('key')
        good_key = isinstance(keyf, ast.Lambda) and unparse(keyf.body) in (f'{keyf.args.args[0].arg}[1]', f'{keyf.args.args[0].arg}[1].display_priority',
                                                                         f'{keyf.args.args[0].arg}[1]._display_priority')
        ok = unparse(s.args[0]) == f'self.{V}.items()' and good_key and (rev is None or unparse(rev) == 'False')
        # result must be stored back as a dict preserving that order
        back = any(isinstance(st, ast.Assign) and any(is_self_attr(t, V) for t in st.targets) and any(y is s for y in ast.walk(st.value))
                   and isinstance(st.value, (ast.DictComp, ast.Call)) for st in walk_shallow(fn))
        ok = ok and back
    ctx.ob('R18.6', 'add:stable-sort', ok, sample=f'add re-sorts with {short(sorts[0], 90) if sorts else "NO sorted()"}')
    if not ok:
        ctx.finding('R18.6', 'InputParameterMap.add:sort', ci, fn, 'children are not re-sorted with a stable ascending sort on the parameter (display priority): listing order / tie order is wrong',
                    where='InputParameterMap.add')


def r187(ctx):
    prog = ctx.prog
    ctx.rule('R18.7', 'ordering operators of InputParameter compare display_priority with the matching operator (3 cases each)')
    ci = prog.cls(ROOT)
    ops = {'__eq__': lambda c: c == 0, '__ne__': lambda c: c != 0, '__lt__': lambda c: c < 0, '__le__': lambda c: c <= 0, '__gt__': lambda c: c > 0, '__ge__': lambda c: c >= 0}
    r = prog.simple_return(ROOT, 'display_priority')
    f = r.attr if r is not None and is_self_attr(r) else '_display_priority'
    for name, spec in ops.items():
        fn = prog.method(ROOT, name, inherited=False)
        o = fn.args.args[1].arg
        bad = []
        for rel, cval in (('lt', -1), ('eq', 0), ('gt', 1)):
            env = {('ord', f'self.{f}', f'{o}.{f}'): rel, ('bool', f'isinstance({o}, InputParameter)'): True}
            ge = GuardEval(prog, ROOT, env, receivers=('self', o))
            got = eval_decision_list(body_of(fn), ge)
            ctx.examined()
            if got is not spec(cval):
                bad.append((rel, got, spec(cval)))
        ok = not bad
        ctx.ob('R18.7', f'{ROOT}.{name}', ok, sample=f'{ROOT}.{name}: {short(body_of(fn)[-1])} -- mismatches {bad}')
        if not ok:
            ctx.finding('R18.7', f'{ROOT}.{name}', ci, fn, f'{name} does not agree with the order of display_priority: {bad}', where=f'{ROOT}.{name}')
    ctx.exhaustive['R18.7 orderings of display_priority'] = True


def model_roundtrip(ctx):
    prog = ctx.prog
    ctx.rule('R18.9', 'DSOLModel.set_parameter(key, v) stores through set_value of the parameter found by key; get_parameter(key) returns its value')
    ci = prog.cls('DSOLModel')
    sp = prog.method('DSOLModel', 'set_parameter', inherited=False)
    k, v = sp.args.args[1].arg, sp.args.args[2].arg
    b = body_of(sp)
    ok = len(b) == 1 and unparse(b[0]) == f'self._input_parameters.get({k}).set_value({v})'
    ctx.ob('R18.9', 'DSOLModel.set_parameter', ok, sample=f'set_parameter: {[short(s) for s in b]}')
    if not ok:
        ctx.finding('R18.9', 'DSOLModel.set_parameter', ci, sp, f'set_parameter is not `self._input_parameters.get({k}).set_value({v})` (validated store through the parameter)',
                    where='DSOLModel.set_parameter')
    gp = prog.method('DSOLModel', 'get_parameter', inherited=False)
    k = gp.args.args[1].arg
    b = body_of(gp)
    ok = len(b) == 1 and isinstance(b[0], ast.Return) and unparse(b[0].value) == f'self._input_parameters.get({k}).value'
    ctx.ob('R18.9', 'DSOLModel.get_parameter', ok, sample=f'get_parameter: {[short(s) for s in b]}')
    if not ok:
        ctx.finding('R18.9', 'DSOLModel.get_parameter', ci, gp, 'get_parameter does not return the value of the parameter found by key', where='DSOLModel.get_parameter')


def r1810_dotted_key(ctx):
    """get() and remove() of the parameter map recurse into the sub-map named by the first key element with the REST of
    the dotted key (everything after the first period); both siblings must do so"""
    prog = ctx.prog
    ctx.rule('R18.10', 'InputParameterMap.get / remove recurse with the remainder of the dotted key after its first period (sibling agreement)')
    ci = prog.cls('InputParameterMap')
    V = value_field(prog)
    # by symbolic interpretation of the descent (E13): keys of 1, 2 and 3 elements, every element present / one absent / a non-map in the way
    from ..keypath import check_descent
    kp, kp_why = check_descent(prog, 'InputParameterMap', V)
    if kp is not None:
        for m in ('get', 'remove'):
            ctx.examined(12)
            ctx.ob('R18.10', f'InputParameterMap.{m}', not kp[m], sample=f'InputParameterMap.{m}: interpreted for dotted keys of 1-3 elements over 12 trees: '
                   + ('the named parameter, or KeyError' if not kp[m] else '; '.join(f'{a}: {b}' for a, b in kp[m][:2])))
            for (what, wrong) in kp[m][:2]:
                ctx.finding('R18.10', f'InputParameterMap.{m}:recursion', ci, prog.method('InputParameterMap', m, inherited=False),
                            f'{m}() with {what}: {wrong}', where=f'InputParameterMap.{m}')
        ctx.exhaustive['R18.10 dotted keys of 1..3 elements x (present | element j absent | element j not a map)'] = True
        return
    ctx.note(f'R18.10: get / remove are outside the domain of the key-path interpreter ({kp_why}); syntactic rule applied')
    for m in ('get', 'remove'):
        fn = prog.method('InputParameterMap', m, inherited=False)
        k = fn.args.args[1].arg
        al = {}
        for st in walk_shallow(fn):
            if isinstance(st, ast.Assign) and len(st.targets) == 1 and isinstance(st.targets[0], ast.Name):
                al[st.targets[0].id] = unparse(st.value)
        rec = [c for c in walk_shallow(fn) if isinstance(c, ast.Call) and isinstance(c.func, ast.Attribute) and c.func.attr == m
               and isinstance(c.func.value, ast.Subscript) and is_self_attr(c.func.value.value, V)]
        ok = len(rec) == 1 and len(rec[0].args) == 1
        why = f'{len(rec)} recursive calls'
        if ok:
            sub = unparse(rec[0].func.value.slice)
            rest = unparse(rec[0].args[0])
            parts = [n for n, v in al.items() if v == f"{k}.split('.')"]
            head_ok = sub in [f'{p}[0]' for p in parts] + [f"{k}.split('.')[0]", f"{k}.split('.', 1)[0]", f"{k}.partition('.')[0]", f"{k}[:{k}.find('.')]"] \
                or any(al.get(sub) in (f"{k}.split('.', 1)[0]", f"{k}.partition('.')[0]") for _ in [0])
            good_rest = [f"{k}[{k}.find('.') + 1:]", f"{k}.split('.', 1)[1]", f"{k}.partition('.')[2]", f"{k}[{k}.index('.') + 1:]"] \
                + [f"'.'.join({p}[1:])" for p in parts] + [f'{k}[len({p}[0]) + 1:]' for p in parts]
            rest_ok = rest in good_rest or al.get(rest) in good_rest
            ok = head_ok and rest_ok
            why = f'recurses into `{sub}` with `{rest}`'
        ctx.ob('R18.10', f'InputParameterMap.{m}', ok, sample=f'InputParameterMap.{m}: {why}')
        if not ok:
            ctx.finding('R18.10', f'InputParameterMap.{m}:recursion', ci, rec[0] if rec else fn,
                        f'{m}() {why}; it must descend into the sub-map named by the first key element with everything after the first period '
                        f'(e.g. `{k}[{k}.find(".") + 1:]`): with keys of three or more elements the wrong parameter is returned / removed', where=f'InputParameterMap.{m}')


def r1812_extended_key(ctx):
    """extended_key() is the parent's extended key, a period and the own key (the own key at the root), computed from the *current* parent.
    A value remembered from an earlier call may be returned only under a token test whose token every change of a parent replaces for
    all parameters (class level): the keys of the parameters below the one that moved are outdated too."""
    import ast
    from ..cfg import CFG
    from ..pathsum import PathSum, Unsupported
    prog = ctx.prog
    ctx.rule('R18.12', 'extended_key() = own key at the root, else parent.extended_key() + "." + own key, from the current parent; a memoised key is returned only '
                       'under a token that every re-parenting replaces at class level')
    ci = prog.cls(ROOT)
    fn = prog.method(ROOT, 'extended_key', inherited=False)
    if fn is None:
        raise AnalysisError('anchor vanished: InputParameter.extended_key')
    want = {True: ('self._key',), False: ("self._parent.extended_key() + '.' + self._key", "f'{self._parent.extended_key()}.{self._key}'")}
    problems = []
    memo_returns = []
    stores = {}
    for root in (True, False):
        env = {('isnone', 'self._parent'): root}
        try:
            outs = PathSum(prog, ROOT, fn, env, assume_validated=False).run()
        except Unsupported as e:
            problems.append((fn, f'extended_key is not summarised ({e})'))
            break
        ctx.examined()
        for o in outs:
            if o.kind != 'return' or o.value is None:
                problems.append((o.node or fn, f'extended_key ends with {o.kind}'))
                continue
            vt = unparse(o.value)
            if vt in want[root]:
                for f_, v_ in o.store.items():
                    stores.setdefault(f_, []).append((root, unparse(v_)))
                continue
            memo_returns.append((root, o, vt))
    memo_ok = True
    if memo_returns and not problems:
        # returned `self.M[1]` under `self.M[0] is self.T`
        for (root, o, vt) in memo_returns:
            m = None
            if isinstance(o.value, ast.Subscript) and is_self_attr(o.value.value) and unparse(o.value.slice) == '1':
                m = o.value.value.attr
            conds = [c for (c, b) in o.conds if b in (True, 'fork:T')]
            tok = None
            for c in conds:
                for part in c.replace('(', ' ').replace(')', ' ').split(' and '):
                    part = part.strip()
                    if m and part.startswith(f'self.{m}[0] is self.'):
                        tok = part.split(' is self.')[1].strip()
            if m is None or tok is None:
                problems.append((o.node or fn, f'extended_key can return `{vt}`, which is neither the key built from the current parent nor a memo guarded by a token test'))
                memo_ok = False
                continue
            # the memo is filled with (token read in this call, key built in this call)
            filled = [(r, t) for (r, t) in stores.get(m, [])]
            good_fill = filled and all(t in tuple(f'(self.{tok}, {w})' for w in want[r]) for (r, t) in filled)
            if not good_fill:
                problems.append((o.node or fn, f'the memo `{m}` is not filled with (current token, key built from the current parent): {sorted(set(t for _r, t in filled))[:2]}'))
                memo_ok = False
            # the token lives in a class body and every re-parenting replaces it there
            decl = [c for c in prog.mro(ROOT) if c in prog.classes and any(n == tok for (n, _v, _s) in prog.classes[c].all_assigns)]
            if not decl:
                problems.append((o.node or fn, f'the token `{tok}` is not a class-level attribute: every parameter has its own, nothing can outdate the memos of the others'))
                memo_ok = False
                continue
            D = decl[0]
            for cname, cinfo in prog.classes.items():
                if cinfo.module.name != ci.module.name:
                    continue
                for mname, f2 in cinfo.methods.items():
                    if mname == '__init__' and cname == ROOT:
                        continue
                    g = None
                    for st in walk_shallow(f2):
                        if isinstance(st, (ast.Assign, ast.AnnAssign)) and any(isinstance(t, ast.Attribute) and t.attr == '_parent'
                                                                                 for t in (st.targets if isinstance(st, ast.Assign) else [st.target])):
                            g = g or CFG(f2)
                            node = g.node_for(st)
                            repl = [g.node_for(a) for a in walk_shallow(f2) if isinstance(a, ast.Assign) and any(
                                isinstance(t, ast.Attribute) and t.attr == tok and isinstance(t.value, ast.Name) and t.value.id in (D, 'cls') for t in a.targets)]
                            inst = [a for a in walk_shallow(f2) if isinstance(a, ast.Assign) and any(is_self_attr(t, tok) for t in a.targets)]
                            skipped = g.reaches(node, g.exit, avoid=repl, labels_excluded=('exc', 'raise', 'reraise')) if repl else True
                            if skipped:
                                why = (f'`{short(inst[0], 50)}` replaces the token on this object only (an instance attribute that hides the class attribute): the memos of all '
                                       'other parameters stay valid') if inst else f'the token `{D}.{tok}` is not replaced afterwards'
                                problems.append((st, f'{cname}.{mname} gives a parameter a (new) parent but {why}; a key that was asked for before -- of the parameter or of '
                                                     f'anything below it -- keeps naming the old position, so the parameter is not retrievable / removable by its extended key'))
                                memo_ok = False
    ok = not problems
    ctx.ob('R18.12', 'InputParameter.extended_key', ok, sample='extended_key: built from the current parent on every path' + (f'; memoised under a class-level token: {memo_ok}' if memo_returns else ''))
    for (node, msg) in problems[:3]:
        ctx.finding('R18.12', f'InputParameter.extended_key:{msg.split(":")[0][:40]}', ci, node, msg, where='InputParameter.extended_key')


def r1814_declared_bounds(ctx):
    """The bound a parameter enforces is the bound it was declared with: for every bound argument of a constructor, by cases of the argument
    (None / zero / any other number) the field that set_value compares with is that argument itself -- or, where None is accepted, a
    constant; a falsy bound (0, 0.0) is a bound like any other."""
    from ..pathsum import PathSum, Unsupported
    prog = ctx.prog
    ctx.rule('R18.14', 'declared bounds are stored as given: by cases of the constructor argument (None / 0 / other) the enforced bound is the argument (a constant only for None)')
    n = 0
    for c in sorted(prog.classes):
        if ROOT not in prog.mro(c):
            continue
        ci = prog.classes[c]
        init = ci.methods.get('__init__')
        if init is None:
            continue
        params = [a.arg for a in init.args.args[1:]] + [a.arg for a in init.args.kwonlyargs]
        # bound parameters: those that reach a field compared with the value in set_value
        sv = ci.methods.get('set_value')
        if sv is None:
            continue
        cmp_fields = {x.attr for t in walk_shallow(sv) if isinstance(t, ast.Compare) for x in ast.walk(t) if is_self_attr(x)}
        for p in params:
            if not any(p.startswith(pre) for pre in ('min', 'max')):
                continue
            fields = None
            results = {}
            for case, env in (('None', {('isnone', p): True, ('bool', p): False}), ('zero', {('isnone', p): False, ('bool', p): False, p: 0}),
                              ('another number', {('isnone', p): False, ('bool', p): True})):
                try:
                    outs = PathSum(prog, c, init, env, assume_validated=True).run()
                except Unsupported:
                    outs = None
                if outs is None:
                    results = None
                    break
                vals = set()
                for o in outs:
                    if o.kind == 'raise':
                        continue
                    for f in cmp_fields:
                        if f in o.store and (p in {x.id for x in ast.walk(o.store[f]) if isinstance(x, ast.Name)} or case != 'another number'):
                            vals.add((f, unparse(o.store[f])))
                results[case] = vals
            if not results:
                continue
            flds = {f for vs in results.values() for (f, _t) in vs if any(p == t_ or p in t_ for (_f, t_) in vs)}
            stored = {f for (f, t_) in results.get('another number', set()) if t_ == p}
            if not stored:
                continue
            n += 1
            bad = []
            for f in sorted(stored):
                z = {t_ for (f_, t_) in results['zero'] if f_ == f}
                if z and z != {p}:
                    bad.append((f, 'zero', z))
            ctx.ob('R18.14', f'{c}.{p}', not bad, sample=f'{c}: bound argument {p} -> {sorted(stored)}; for 0 the stored bound is the argument: {not bad}')
            for (f, case, z) in bad:
                ctx.finding('R18.14', f'{c}.__init__:{p}:{case}', ci, init,
                            f'{c}(..., {p}=0) stores `{sorted(z)[0]}` in `{f}`, not the 0 it was given: a bound of zero is treated like "no bound", so values beyond the declared '
                            f'bound are accepted by the constructor and by set_value', where=f'{c}.__init__')
    ctx.floor('R18.14', 'bound arguments', n, 4)
