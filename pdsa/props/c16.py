"""C16 -- quantity arithmetic is dimensionally sound and type safe (DESIGN §3-C16, R16.1-R16.6)."""
from __future__ import annotations

import ast
import itertools

from ..core import AnalysisError, NOCONST, body_of, const_value, is_self_attr, short, unparse, walk_shallow
from ..guards import AMBIG, NORETURN, RAISE, GuardEval, eval_decision_list
from ..tables import UnitTables

EXPLANATION = (
    "Exhaustive table evaluation: the _sidict signature of all Quantity classes and the complete _mul/_div conversion "
    "tables (explicit dict displays plus the generated Dimensionless rows and q/q diagonal) are evaluated from the "
    "source without executing it, and every entry A*B=C / A/B=C is checked for sig(A)±sig(B)=sig(C) over the 9 SI base "
    "units. The operator wiring of Quantity/SI (__mul__, __truediv__, reflected forms, asSI, as_quantity, + - abs neg) "
    "is checked structurally, and the type guards of + - < <= > >= are evaluated over the finite domain {same type?} x "
    "{same signature?} against the specification and against their siblings. Does not decide the SI unit-string "
    "parser/printer round trip (a property of executions of a hand-written scanner).")

GUARDED = ('__add__', '__sub__', '__lt__', '__le__', '__gt__', '__ge__')
CMP_OP = {'__lt__': ast.Lt, '__le__': ast.LtE, '__gt__': ast.Gt, '__ge__': ast.GtE, '__eq__': ast.Eq, '__ne__': ast.NotEq}
ARITH_OP = {'__add__': ast.Add, '__sub__': ast.Sub}


def run(ctx):
    prog = ctx.prog
    ctx.uses('units')
    ctx.trust('my reading of the package: a named result class is constructed with its base unit, whose factor is 1.0 (checked by C17 R17.1)')
    ut = UnitTables(prog)
    r161(ctx, ut)
    r163(ctx, ut)
    r162(ctx, ut)
    r164(ctx, ut)
    r165(ctx, ut)
    r166(ctx, ut)
    # SI signatures meet in `==` / `!=` (as_quantity, + - and the comparisons of SI): they must be one kind of container everywhere
    from ..statrules import compared_container_fields
    compared_container_fields(ctx, 'R16.7', 'units')
    from ..statrules import memo_soundness
    memo_soundness(ctx, 'R16.8', ['units'])
    r169_canonical_unit_text(ctx)


def r169_canonical_unit_text(ctx):
    """The unit text of a generic SI value (`x._unit = x.siunit(..)`) is what `SI(value, text)` / `str_to_sisig` must read back: every site
    that derives it uses the one canonical format -- divider, no hat, dot between units -- (arguments bound to siunit's own signature, so
    positional and keyword calls are the same call).  Sibling agreement: the sites were confirmed by reading; a site with other arguments
    prints a text the parser refuses (e.g. 'm/rads.2')."""
    prog = ctx.prog
    ctx.rule('R16.9', 'every derivation of the unit text of a generic SI value calls siunit(div=True, hat=\'\', dot=\'.\') -- the format str_to_sisig reads back')
    mod = prog.module('units')
    CANON = {'div': 'True', 'hat': "''", 'dot': "'.'"}
    n = 0
    for oc, fn, m in prog.functions():
        if m is not mod:
            continue
        for a in [x for x in ast.walk(fn) if isinstance(x, ast.Assign)]:
            if not (len(a.targets) == 1 and isinstance(a.targets[0], ast.Attribute) and a.targets[0].attr == '_unit' and isinstance(a.value, ast.Call)
                    and isinstance(a.value.func, ast.Attribute) and a.value.func.attr == 'siunit'):
                continue
            n += 1
            c = a.value
            got = dict(zip(('div', 'hat', 'dot'), [unparse(x) for x in c.args]))
            for kw in c.keywords:
                if kw.arg is not None:
                    got[kw.arg] = unparse(kw.value)
            # defaults of siunit: div=True, hat='', dot=''
            full = {'div': got.get('div', 'True'), 'hat': got.get('hat', "''"), 'dot': got.get('dot', "''")}
            full = {k: v.replace('"', "'") for k, v in full.items()}
            if any(isinstance(x, ast.Starred) for x in c.args) or any(kw.arg is None for kw in c.keywords) \
                    or not all(isinstance(x, ast.Constant) for x in list(c.args) + [kw.value for kw in c.keywords]):
                ctx.note(f'R16.9: {oc.name if oc else ""}.{fn.name}:{a.lineno}: arguments of siunit are not literals ({short(c, 50)}); no verdict for this site')
                continue
            ok = full == CANON
            where = f'{oc.name}.{fn.name}' if oc else fn.name
            ctx.ob('R16.9', f'{where}:{a.lineno}', ok, sample=f'{where}: {short(a, 70)} -> {full}')
            if not ok:
                ctx.finding('R16.9', f'{where}:unit-text-format', oc, a,
                            f'the unit text of the result is derived with siunit({", ".join(f"{k}={v}" for k, v in full.items())}); every other site (and the parser '
                            f'str_to_sisig) uses div=True, hat=\'\', dot=\'.\': this result prints a unit that SI(value, unit) cannot read back', where=where)
    ctx.floor('R16.9', 'derivations of a generic SI unit text', n, 4)


def fmt(sig):
    return '.'.join(f'{k}^{v}' for k, v in sorted(sig.items())) or '1'


def r161(ctx, ut):
    ctx.rule('R16.1', 'every _mul/_div entry (explicit and generated) is dimensionally exact: sig(A)±sig(B)=sig(C)')
    n = 0
    for A in ut.qclasses:
        for (tab, sgn, opn) in ((ut.mul, 1, '*'), (ut.div, -1, '/')):
            for B, e in tab[A].items():
                n += 1
                want = ut.comb(ut.sig(A), ut.sig(B), sgn)
                got = ut.sig(e.value)
                ok = want == got and e.origin != 'explicit-duplicate'
                ctx.ob('R16.1', f'{A}{opn}{B}', ok,
                       sample=f'{A}{opn}{B}={e.value}: {fmt(ut.sig(A))} {opn} {fmt(ut.sig(B))} = {fmt(want)}; declared {fmt(got)} ({e.origin})')
                if want != got:
                    ctx.finding('R16.1', f'{A}.{"_mul" if sgn == 1 else "_div"}[{B}]', ctx.prog.cls(A), e.node,
                                f'{A} {opn} {B} is declared to be {e.value} [{fmt(got)}] but the SI signatures give {fmt(want)}',
                                where=f'{A}.{"_mul" if sgn == 1 else "_div"}', construct=f'{B}: {e.value}')
                elif e.origin == 'explicit-duplicate':
                    ctx.finding('R16.1', f'{A}.{"_mul" if sgn == 1 else "_div"}[{B}]:duplicate', ctx.prog.cls(A), e.node,
                                f'duplicate key {B} in {A}.{"_mul" if sgn == 1 else "_div"} (the later entry silently wins)',
                                where=f'{A}')
    ctx.floor('R16.1', 'explicit table entries', ut.n_explicit, 170)
    ctx.floor('R16.1', 'generated table entries', ut.n_generated, 150)
    ctx.exhaustive['R16.1 all _mul/_div entries of all Quantity classes'] = True
    ctx.extra['table_entries'] = {'explicit': ut.n_explicit, 'generated': ut.n_generated, 'classes': len(ut.qclasses)}


def r163(ctx, ut):
    ctx.rule('R16.3', 'signature keys are SI base units with non-zero int exponents; QUANTITIES lists every Quantity subclass')
    for c in ut.qclasses:
        d = ut.tables[c]['_sidict']
        bad = [(k, v) for (k, v, _kn, _vn) in d.items if k not in ut.siunits or not isinstance(v, int) or isinstance(v, bool) or v == 0]
        dup = d.duplicates()
        ok = not bad and not dup
        ctx.ob('R16.3', f'{c}._sidict', ok, sample=f'{c}._sidict = {d.as_dict()}')
        if not ok:
            ctx.finding('R16.3', f'{c}._sidict', ctx.prog.cls(c), d.node,
                        f'{c}._sidict has invalid entries {bad or dup}: unknown keys are silently dropped by sisig(), so the dimension is wrong',
                        where=c)
    missing = sorted(set(ut.qclasses) - set(ut.quantities))
    extra = sorted(set(ut.quantities) - set(ut.qclasses))
    dupq = sorted({q for q in ut.quantities if ut.quantities.count(q) > 1})
    ok = not missing and not extra
    ctx.ob('R16.3', 'QUANTITIES', ok, sample=f'QUANTITIES has {len(ut.quantities)} classes; Quantity subclasses {len(ut.qclasses)}')
    if not ok:
        ctx.finding('R16.3', 'QUANTITIES', None, ut.quantities_node,
                    f'QUANTITIES misses {missing} / has non-quantities {extra}: those classes get no Dimensionless rows and no q/q diagonal',
                    module=ut.mod, where='units')
    ctx.floor('R16.3', 'Quantity classes', len(ut.qclasses), 41)
    # two classes with the same signature are allowed (Torque/Energy); nothing to check there.


# --------------------------------------------------------------------------- R16.2
def _is_float_of(node, name):
    return isinstance(node, ast.Call) and unparse(node.func) == 'float' and len(node.args) == 1 and unparse(node.args[0]) == name


def _elementwise_op(expr):
    """'+' / '-' / None for an element-wise combination of self.sisig() and other.sisig() (self first)"""
    t = expr
    if isinstance(t, ast.Call) and unparse(t.func) in ('list', 'tuple') and len(t.args) == 1:
        t = t.args[0]
    sides = None
    op = None
    if isinstance(t, ast.Call) and unparse(t.func) == 'map' and len(t.args) == 3:
        f = t.args[0]
        if isinstance(f, ast.Lambda) and len(f.args.args) == 2 and isinstance(f.body, ast.BinOp):
            a, b = f.args.args[0].arg, f.args.args[1].arg
            if unparse(f.body.left) == a and unparse(f.body.right) == b:
                op = f.body.op
            elif unparse(f.body.left) == b and unparse(f.body.right) == a and isinstance(f.body.op, ast.Add):
                op = f.body.op
        elif unparse(f) in ('operator.add', 'add'):
            op = ast.Add()
        elif unparse(f) in ('operator.sub', 'sub'):
            op = ast.Sub()
        sides = (t.args[1], t.args[2])
    elif isinstance(t, (ast.ListComp, ast.GeneratorExp)) and len(t.generators) == 1:
        g = t.generators[0]
        if isinstance(g.iter, ast.Call) and unparse(g.iter.func) == 'zip' and len(g.iter.args) == 2 and isinstance(g.target, ast.Tuple) \
                and len(g.target.elts) == 2 and isinstance(t.elt, ast.BinOp):
            a, b = unparse(g.target.elts[0]), unparse(g.target.elts[1])
            if unparse(t.elt.left) == a and unparse(t.elt.right) == b:
                op = t.elt.op
            elif unparse(t.elt.left) == b and unparse(t.elt.right) == a and isinstance(t.elt.op, ast.Add):
                op = t.elt.op
            sides = (g.iter.args[0], g.iter.args[1])
    if op is None or sides is None:
        return None

    def side(x):
        u = unparse(x)
        if u in ('self.sisig()', 'self._sisig'):
            return 'self'
        if u.endswith('.sisig()') or u.endswith('._sisig'):
            return 'other'
        return '?'
    if (side(sides[0]), side(sides[1])) != ('self', 'other'):
        return None
    return '+' if isinstance(op, ast.Add) else '-' if isinstance(op, ast.Sub) else None


def _sig_side(x):
    u = unparse(x)
    if u in ('self.sisig()', 'self._sisig'):
        return 'self'
    if u.endswith('.sisig()') or u.endswith('._sisig'):
        return 'other'
    return '?'


def _imperative_elementwise(fn, e):
    """(op, why): the local list `e` is a fresh copy of self's signature to which a loop adds / subtracts other's exponents
    position by position:   L = list(self.sisig());  for i, x in enumerate(other.sisig()): L[i] += x   (or -=, or += k * x, k = +-1)"""
    if not isinstance(e, ast.Name):
        return None, None
    L = e.id
    defs = [n for n in walk_shallow(fn) if isinstance(n, (ast.Assign, ast.AnnAssign)) and n.value is not None
            and any(isinstance(t, ast.Name) and t.id == L for t in (n.targets if isinstance(n, ast.Assign) else [n.target]))]
    if len(defs) != 1:
        return None, None
    v = defs[0].value
    src = None
    fresh = False
    if isinstance(v, ast.Call) and unparse(v.func) in ('list',) and len(v.args) == 1:
        src, fresh = v.args[0], True
    elif isinstance(v, ast.Call) and isinstance(v.func, ast.Attribute) and v.func.attr == 'copy' and not v.args:
        src, fresh = v.func.value, True
    elif isinstance(v, ast.Subscript) and isinstance(v.slice, ast.Slice) and v.slice.lower is None and v.slice.upper is None and v.slice.step is None:
        src, fresh = v.value, True
    elif isinstance(v, ast.ListComp) and len(v.generators) == 1 and isinstance(v.elt, ast.Name) and unparse(v.generators[0].target) == v.elt.id \
            and not v.generators[0].ifs:
        src, fresh = v.generators[0].iter, True
    else:
        src = v
    if _sig_side(src) != 'self':
        return None, None
    loops = [n for n in walk_shallow(fn) if isinstance(n, ast.For) and any(isinstance(x, ast.Subscript) and isinstance(x.value, ast.Name) and x.value.id == L
                                                                            and isinstance(x.ctx, ast.Store) for b in n.body for x in ast.walk(b))]
    if len(loops) != 1 or len(loops[0].body) != 1 or loops[0].orelse:
        return None, None
    lp = loops[0]
    b = lp.body[0]
    idx = elem = None
    if isinstance(lp.iter, ast.Call) and unparse(lp.iter.func) == 'enumerate' and len(lp.iter.args) == 1 and isinstance(lp.target, ast.Tuple) \
            and len(lp.target.elts) == 2 and _sig_side(lp.iter.args[0]) == 'other':
        idx, elem = unparse(lp.target.elts[0]), unparse(lp.target.elts[1])
    elif isinstance(lp.iter, ast.Call) and unparse(lp.iter.func) == 'range' and isinstance(lp.target, ast.Name):
        a = [unparse(x) for x in lp.iter.args]
        if a in ([f'len({L})'], ['9'], ['0', '9'], ['0', f'len({L})'], ['len(self.sisig())'], ['len(SI.SIUNITS)']):
            idx = lp.target.id
    if idx is None:
        return None, None
    if not (isinstance(b, ast.AugAssign) and isinstance(b.op, (ast.Add, ast.Sub)) and isinstance(b.target, ast.Subscript)
            and unparse(b.target.value) == L and unparse(b.target.slice) == idx):
        return None, None
    sign = 1 if isinstance(b.op, ast.Add) else -1
    val = b.value
    if isinstance(val, ast.BinOp) and isinstance(val.op, ast.Mult):
        from ..core import const_value as _cv
        for k, x in ((val.left, val.right), (val.right, val.left)):
            c = _cv(k)
            if c in (1, -1):
                sign *= c
                val = x
                break
        else:
            return None, None
    if elem is not None:
        if unparse(val) != elem:
            return None, None
    else:
        if not (isinstance(val, ast.Subscript) and _sig_side(val.value) == 'other' and unparse(val.slice) == idx):
            return None, None
    if not fresh:
        return None, (f'`{L} = {unparse(v)}` is the signature list of self itself, not a copy: the loop changes the exponents of the left operand in place '
                      '(the operand has another unit after the operation)')
    return ('+' if sign > 0 else '-'), None


def _resolve_local(fn, e):
    """a local name with exactly one (single-name) assignment in fn stands for the assigned expression"""
    for _ in range(3):
        if not isinstance(e, ast.Name):
            return e
        defs = [n for n in walk_shallow(fn) if isinstance(n, (ast.Assign, ast.AnnAssign)) and n.value is not None
                and any(isinstance(t, ast.Name) and t.id == e.id for t in (n.targets if isinstance(n, ast.Assign) else [n.target]))]
        stores = [n for n in walk_shallow(fn) if isinstance(n, ast.Name) and n.id == e.id and isinstance(n.ctx, ast.Store)]
        if len(defs) != 1 or len(stores) != 1:
            return e
        e = defs[0].value
    return e


def r162(ctx, ut):
    prog = ctx.prog
    ctx.rule('R16.2', 'operator wiring: __mul__ consults _mul with *, __truediv__ consults _div with /, SI combines signatures with +/-, reflected forms delegate')
    for (cname, meth, table, other_table, binop, sigop) in (
            ('Quantity', '__mul__', '_mul', '_div', ast.Mult, '+'), ('Quantity', '__truediv__', '_div', '_mul', ast.Div, '-'),
            ('SI', '__mul__', None, None, ast.Mult, '+'), ('SI', '__truediv__', None, None, ast.Div, '-')):
        ci = prog.cls(cname)
        fn = prog.method(cname, meth, inherited=False)
        other = fn.args.args[1].arg if len(fn.args.args) > 1 else 'other'
        problems = []
        # every arithmetic between float(self) and other/float(other) uses the operator of this method
        n_ar = 0
        for n in walk_shallow(fn):
            if isinstance(n, ast.BinOp) and (_is_float_of(n.left, 'self') or unparse(n.left) in ('self.asSI()', 'self.si')):
                ctx.examined()
                n_ar += 1
                if not isinstance(n.op, binop):
                    problems.append((n, f'`{short(n)}` uses {type(n.op).__name__} inside {meth}'))
                if _is_float_of(n.left, 'self') and not (_is_float_of(n.right, other) or unparse(n.right) == other):
                    problems.append((n, f'`{short(n)}`: right operand is not {other}'))
            if isinstance(n, ast.BinOp) and (_is_float_of(n.right, 'self') or unparse(n.right) == 'self.asSI()') and not isinstance(n.op, (ast.Mult,)):
                problems.append((n, f'`{short(n)}`: operands swapped in a non-commutative operation'))
        if n_ar < 2:
            problems.append((fn, f'{meth}: expected the scalar and the quantity branch to compute float(self) {binop.__name__} ..., found {n_ar}'))
        # the scalar branch by cases: for a plain number the result is self._val(float(self) <op> number) -- scaling acts on the SI value and
        # keeps the unit (a result built from the displayed value goes through the unit factor twice: not bit-exact, inf / 0 at the limits)
        for num_t in ('float', 'int'):
            env_ = {('ord', f'type({other})', num_t): 'eq', ('ord', f'type({other})', 'int' if num_t == 'float' else 'float'): 'lt',
                    ('bool', f'isinstance({other}, (float, int))'): True, ('bool', f'isinstance({other}, (int, float))'): True,
                    ('bool', f'isinstance({other}, float)'): num_t == 'float', ('bool', f'isinstance({other}, int)'): num_t == 'int',
                    ('bool', f'type({other}) in (float, int)'): True, ('bool', f'type({other}) in (int, float)'): True}
            r_ = eval_decision_list(body_of(fn), GuardEval(prog, cname, env_))
            ctx.examined()
            okc = isinstance(r_, tuple) and isinstance(r_[1], ast.Call) and unparse(r_[1].func) == 'self._val' and len(r_[1].args) == 1 \
                and isinstance(r_[1].args[0], ast.BinOp) and isinstance(r_[1].args[0].op, binop) and _is_float_of(r_[1].args[0].left, 'self') \
                and unparse(r_[1].args[0].right) in (other, f'float({other})')
            if not okc and r_ != AMBIG:
                problems.append((r_[1] if isinstance(r_, tuple) and r_[1] is not None else fn,
                                 f'{meth} with a plain {num_t}: the result is `{short(r_[1]) if isinstance(r_, tuple) and r_[1] is not None else r_}`, not '
                                 f'self._val(float(self) {binop.__name__} {other}): scaling must act on the SI value'))
                break
        if table is not None:
            used = {n.attr for n in walk_shallow(fn) if isinstance(n, ast.Attribute) and n.attr in ('_mul', '_div')}
            if used != {table}:
                problems.append((fn, f'{meth} consults {sorted(used)} instead of {table}'))
            # the named result is built as newclass(float(self) op float(other), newclass._baseunit) from the looked-up class
            ok_named = False
            for n in walk_shallow(fn):
                if isinstance(n, ast.Assign) and isinstance(n.value, ast.Subscript) and isinstance(n.value.value, ast.Attribute) \
                        and n.value.value.attr == table and unparse(n.value.slice) == f'type({other})' and isinstance(n.targets[0], ast.Name):
                    var = n.targets[0].id
                    for r in walk_shallow(fn):
                        if isinstance(r, ast.Return) and isinstance(r.value, ast.Call) and unparse(r.value.func) == var:
                            a = r.value.args
                            kw = {k.arg: k.value for k in r.value.keywords}
                            unit = a[1] if len(a) > 1 else kw.get('unit')
                            if a and isinstance(a[0], ast.BinOp) and isinstance(a[0].op, binop) and _is_float_of(a[0].left, 'self') \
                                    and _is_float_of(a[0].right, other) and (unit is None or unparse(unit) == f'{var}._baseunit'):
                                ok_named = True
            # the same without a variable for the looked-up class: table[type(other)](value, table[type(other)]._baseunit)
            for r in walk_shallow(fn):
                if isinstance(r, ast.Return) and isinstance(r.value, ast.Call) and isinstance(r.value.func, ast.Subscript) \
                        and isinstance(r.value.func.value, ast.Attribute) and r.value.func.value.attr == table and unparse(r.value.func.slice) == f'type({other})':
                    a = r.value.args
                    kw = {k.arg: k.value for k in r.value.keywords}
                    unit = a[1] if len(a) > 1 else kw.get('unit')
                    if a and isinstance(a[0], ast.BinOp) and isinstance(a[0].op, binop) and _is_float_of(a[0].left, 'self') \
                            and _is_float_of(a[0].right, other) and (unit is None or unparse(unit) == f'{unparse(r.value.func)}._baseunit'):
                        ok_named = True
            if not ok_named:
                problems.append((fn, f'{meth}: named result is not built as newclass(float(self) {binop.__name__} float({other}), newclass._baseunit) '
                                     f'with newclass = type(self).{table}[type({other})]'))
            # membership test and lookup on the same table with the same key
            tests = [n for n in walk_shallow(fn) if isinstance(n, ast.Compare) and isinstance(n.ops[0], ast.In) and isinstance(n.comparators[0], ast.Attribute)
                     and n.comparators[0].attr in ('_mul', '_div')]
            if not tests or any(t.comparators[0].attr != table or unparse(t.left) != f'type({other})' for t in tests):
                problems.append((fn, f'{meth}: membership test is not `type({other}) in type(self).{table}`'))
        else:
            # SI: signature combination
            sig_assigns = [n for n in walk_shallow(fn) if isinstance(n, ast.Assign) and isinstance(n.targets[0], ast.Attribute) and n.targets[0].attr == '_sisig']
            got = _elementwise_op(_resolve_local(fn, sig_assigns[0].value)) if len(sig_assigns) == 1 else None
            why = None
            if got is None and len(sig_assigns) == 1:
                got, why = _imperative_elementwise(fn, sig_assigns[0].value)
            if got != sigop:
                problems.append((sig_assigns[0] if sig_assigns else fn,
                                 f'SI.{meth}: result signature is not the element-wise self {sigop} other of the operand signatures' + (f': {why}' if why else '')))
        ok = not problems
        ctx.ob('R16.2', f'{cname}.{meth}', ok, sample=f'{cname}.{meth}: {n_ar} value computations with {binop.__name__}, table {table or "signature " + sigop}')
        for (node, msg) in problems:
            ctx.finding('R16.2', f'{cname}.{meth}:{msg.split(":")[0][:40]}', ci, node, msg, where=f'{cname}.{meth}')
    # reflected forms
    for cname in ('Quantity', 'SI'):
        ci = prog.cls(cname)
        fn = prog.method(cname, '__rmul__', inherited=False)
        rs = [n for n in walk_shallow(fn) if isinstance(n, ast.Return)]
        o = fn.args.args[1].arg
        ok = len(rs) == 1 and rs[0].value is not None and unparse(rs[0].value) in (f'self.__mul__({o})', f'self * {o}')
        ctx.ob('R16.2', f'{cname}.__rmul__', ok, sample=f'{cname}.__rmul__: {short(rs[0].value) if rs else "-"}')
        if not ok:
            ctx.finding('R16.2', f'{cname}.__rmul__', ci, fn, '__rmul__ does not delegate to self.__mul__(other)', where=f'{cname}.__rmul__')
        fn = prog.method(cname, '__rtruediv__', inherited=False)
        o = fn.args.args[1].arg
        rs = [n for n in walk_shallow(fn) if isinstance(n, ast.Return)]
        ok = len(rs) >= 1 and all(r.value is not None and unparse(r.value) in (f'Dimensionless({o}).__truediv__(self)', f'Dimensionless({o}) / self') for r in rs)
        ctx.ob('R16.2', f'{cname}.__rtruediv__', ok, sample=f'{cname}.__rtruediv__: {[short(r.value) for r in rs]}')
        if not ok:
            ctx.finding('R16.2', f'{cname}.__rtruediv__', ci, fn, '__rtruediv__ does not compute Dimensionless(other) / self', where=f'{cname}.__rtruediv__')


# --------------------------------------------------------------------------- R16.4
def r164(ctx, ut):
    prog = ctx.prog
    ctx.rule('R16.4', 'asSI copies float(self) and self.sisig(); as_quantity raises unless signatures are equal, before constructing')
    ci = prog.cls('Quantity')
    fn = prog.method('Quantity', 'asSI', inherited=False)
    val_ok = any(isinstance(n, ast.Call) and unparse(n.func) == 'SI' and n.args and _is_float_of(_resolve_local(fn, n.args[0]), 'self') and len(n.args) == 1
                 for n in walk_shallow(fn))
    sig_ok = any(isinstance(n, ast.Assign) and isinstance(n.targets[0], ast.Attribute) and n.targets[0].attr == '_sisig'
                 and unparse(_resolve_local(fn, n.value)) in ('self.sisig()', 'type(self).sisig()', 'list(self.sisig())') for n in walk_shallow(fn))
    ctx.ob('R16.4', 'Quantity.asSI', val_ok and sig_ok, sample=f'asSI: value copied {val_ok}, signature copied {sig_ok}')
    if not (val_ok and sig_ok):
        ctx.finding('R16.4', 'Quantity.asSI', ci, fn, 'asSI() does not build SI(float(self)) carrying self.sisig()', where='Quantity.asSI')
    # sisig(): reads cls._sidict by SI.SIUNITS order
    fn = prog.method('Quantity', 'sisig', inherited=False)
    txt = unparse(fn)
    ok = '_sidict' in txt and 'SIUNITS' in txt
    ctx.ob('R16.4', 'Quantity.sisig', ok)
    if not ok:
        ctx.finding('R16.4', 'Quantity.sisig', ci, fn, 'sisig() is not derived from cls._sidict in SI.SIUNITS order', where='Quantity.sisig')
    ci = prog.cls('SI')
    fn = prog.method('SI', 'as_quantity', inherited=False)
    q = fn.args.args[1].arg
    res = {}
    for rel in ('eq', 'lt'):
        env = {('ord', f'{q}.sisig()', 'self.sisig()'): rel, ('ord', f'{q}.sisig()', 'self._sisig'): rel,
               ('bool', f'issubclass({q}, Quantity)'): True}
        res[rel] = eval_decision_list(body_of(fn), GuardEval(prog, 'SI', env))
        ctx.examined()
    built = res['eq']
    ok = res['lt'] == RAISE and isinstance(built, tuple) and isinstance(built[1], ast.Call) and unparse(built[1].func) == q \
        and built[1].args and _is_float_of(built[1].args[0], 'self') \
        and (len(built[1].args) < 2 or unparse(built[1].args[1]) == f'{q}._baseunit')
    ctx.ob('R16.4', 'SI.as_quantity', ok, sample=f'as_quantity: unequal signatures -> {res["lt"]}; equal -> {short(built[1]) if isinstance(built, tuple) else built}')
    if not ok:
        ctx.finding('R16.4', 'SI.as_quantity', ci, fn,
                    f'as_quantity must raise when signatures differ (got {res["lt"]}) and otherwise return quantity(float(self), quantity._baseunit)',
                    where='SI.as_quantity')


# --------------------------------------------------------------------------- delegation between sibling operators
def expand_delegation(prog, cname, fn, depth=2):
    """`def __ne__(self, o): return not self.__eq__(o)` (or `return not self == o`, `return self.__lt__(o)`...): a method whose whole
    body hands the same operand to a sibling operator of the same class is that sibling's body with every returned value negated
    (or unchanged).  Returns a synthetic FunctionDef for the decision-list / path-summary evaluators, or fn itself."""
    import copy as _copy
    OPS = {ast.Eq: '__eq__', ast.NotEq: '__ne__', ast.Lt: '__lt__', ast.LtE: '__le__', ast.Gt: '__gt__', ast.GtE: '__ge__'}
    for _ in range(depth):
        b = body_of(fn)
        if len(b) != 1 or not isinstance(b[0], ast.Return) or b[0].value is None or len(fn.args.args) != 2:
            return fn
        other = fn.args.args[1].arg
        v = b[0].value
        neg = False
        while isinstance(v, ast.UnaryOp) and isinstance(v.op, ast.Not):
            v, neg = v.operand, not neg
        target = None
        if isinstance(v, ast.Call) and isinstance(v.func, ast.Attribute) and unparse(v.func.value) == 'self' and len(v.args) == 1 \
                and unparse(v.args[0]) == other and not v.keywords and v.func.attr in OPS.values():
            target = v.func.attr
        elif isinstance(v, ast.Compare) and len(v.ops) == 1 and unparse(v.left) == 'self' and unparse(v.comparators[0]) == other and type(v.ops[0]) in OPS:
            target = OPS[type(v.ops[0])]
        if target is None or target == fn.name:
            return fn
        tf = prog.method(cname, target, inherited=False)
        if tf is None or len(tf.args.args) != 2:
            return fn
        new = _copy.deepcopy(tf)
        new.name = fn.name
        to = tf.args.args[1].arg

        class R(ast.NodeTransformer):
            def visit_Name(self, n):
                if n.id == to and to != other:
                    return ast.copy_location(ast.Name(id=other, ctx=n.ctx), n)
                return n

            def visit_arg(self, n):
                if n.arg == to:
                    n.arg = other
                return n

            def visit_Return(self, n):
                self.generic_visit(n)
                if neg and n.value is not None:
                    if isinstance(n.value, ast.Constant) and isinstance(n.value.value, bool):
                        n.value = ast.copy_location(ast.Constant(value=not n.value.value), n.value)
                    else:
                        n.value = ast.copy_location(ast.UnaryOp(op=ast.Not(), operand=n.value), n.value)
                return n

            def visit_FunctionDef(self, n):
                if n is new:
                    self.generic_visit(n)
                return n
        new = R().visit(new)
        ast.fix_missing_locations(new)
        fn = new
    return fn


# --------------------------------------------------------------------------- R16.5
def guard_env(cname, other, same_type, same_sig, is_quantity=None):
    rel_t = 'eq' if same_type else 'lt'
    rel_s = 'eq' if same_sig else 'lt'
    if is_quantity is None:
        is_quantity = same_type
    return {('ord', 'type(self)', f'type({other})'): rel_t,
            ('bool', f'isinstance({other}, {cname})'): is_quantity if cname == 'Quantity' else same_type,
            ('bool', f'isinstance({other}, type(self))'): same_type,
            ('bool', f'isinstance({other}, Quantity)'): is_quantity,
            # the operand of these cases is a quantity / SI object, never a plain number: its exact type is neither float nor int (it is an
            # instance of float, being a subclass)
            ('ord', f'type({other})', 'float'): 'lt', ('ord', f'type({other})', 'int'): 'lt',
            ('bool', f'type({other}) in (float, int)'): False, ('bool', f'type({other}) in (int, float)'): False,
            ('bool', f'isinstance({other}, (float, int))'): True, ('bool', f'isinstance({other}, (int, float))'): True, ('bool', f'isinstance({other}, float)'): True,
            ('ord', 'self._sisig', f'{other}._sisig'): rel_s, ('ord', 'self.sisig()', f'{other}.sisig()'): rel_s,
            ('ord', 'self._sisig', f'{other}.sisig()'): rel_s, ('ord', 'self.sisig()', f'{other}._sisig'): rel_s}


def r165(ctx, ut):
    prog = ctx.prog
    ctx.rule('R16.5', 'type guards of + - < <= > >= (Quantity, SI): refuse exactly the incompatible operands; == / != answer False / True there')
    for cname in ('Quantity', 'SI'):
        ci = prog.cls(cname)
        # Quantity: the other operand is the same quantity class / another quantity class with the same signature (Energy ~ Torque) /
        # another quantity class with another signature; in all three it *is* a Quantity
        combos = [(True, True), (False, True), (False, False)] if cname == 'Quantity' else list(itertools.product((True, False), repeat=2))
        tables = {}
        for meth in GUARDED + ('__eq__', '__ne__'):
            fn = expand_delegation(prog, cname, prog.method(cname, meth, inherited=False))
            other = fn.args.args[1].arg if len(fn.args.args) > 1 else 'other'
            row = {}
            for (st, ss) in combos:
                # the decision may not depend on the values: the outcome is taken for every relation of the two numbers
                rs_ = []
                for vrel in ('lt', 'eq', 'gt'):
                    env_ = guard_env(cname, other, st, ss, True if cname == 'Quantity' else None)
                    env_[('ord', 'float(self)', f'float({other})')] = vrel
                    rs_.append(eval_decision_list(body_of(fn), GuardEval(prog, cname, env_)))
                    ctx.examined()
                if all(x == RAISE for x in rs_):
                    r = RAISE
                elif any(x == RAISE or x == AMBIG for x in rs_):
                    r = AMBIG if not any(x == RAISE for x in rs_) else RAISE if all(x == RAISE for x in rs_) else AMBIG
                elif all(x is rs_[0] or x == rs_[0] for x in rs_):
                    r = rs_[0]
                else:
                    r = ('expr', None)            # admitted, the answer depends on the values (as it should)
                row[(st, ss)] = r
            tables[meth] = row
            bad = []
            for (st, ss), r in row.items():
                compatible = st and ss
                if meth in GUARDED:
                    if compatible and (r == RAISE or r == AMBIG):
                        bad.append(((st, ss), r, 'must be admitted'))
                    if not compatible and r != RAISE:
                        bad.append(((st, ss), r, 'must be refused'))
                else:
                    if not compatible and r is not (meth == '__ne__'):
                        bad.append(((st, ss), r, f'must answer {meth == "__ne__"}'))
            ok = not bad
            shown = {f'type{"=" if k[0] else "≠"},sig{"=" if k[1] else "≠"}': ('raise' if v == RAISE else 'value' if isinstance(v, tuple) else v) for k, v in row.items()}
            ctx.ob('R16.5', f'{cname}.{meth}', ok, sample=f'{cname}.{meth}: {shown}')
            if not ok:
                (st, ss), r, why = bad[0]
                ctx.finding('R16.5', f'{cname}.{meth}', ci, fn,
                            f'{cname}.{meth} with operand of {"same" if st else "different"} type and {"same" if ss else "different"} SI signature: '
                            f'{why}, but the guard gives {"an ordinary result" if isinstance(r, tuple) else r}; siblings refuse such operands',
                            where=f'{cname}.{meth}', extra={'table': {str(k): str(v) for k, v in row.items()}})
        ctx.exhaustive[f'R16.5 {cname} guards over (same type?, same signature?)'] = True


# --------------------------------------------------------------------------- what _val builds, by cases
def val_summary(prog, cname, given, mname='_val', extra_env=None):
    """Outcome of `<cname>._val` when exactly the parameters named in `given` are passed (the others, all optional, are None):
    {'build': text of the constructor call that creates the result, 'attrs': {attribute stored on the result: text}} for every path,
    or a string saying why it cannot be summarised.  E10 path summaries; conditional expressions on `p is None` are decided."""
    from ..pathsum import PathSum, Unsupported
    fn = prog.method(cname, mname, inherited=False)
    params = [a.arg for a in fn.args.args[1:]]
    nd = len(fn.args.defaults)
    required = params[:len(params) - nd]
    if any(p not in given for p in required) and not all(p in params for p in given):
        return 'parameters do not match'
    env = dict(extra_env or {})
    for p in params:
        env[('isnone', p)] = p not in given
    try:
        outs = PathSum(prog, cname, fn, env, assume_validated=False).run()
    except Unsupported as e:
        return f'not summarised ({e})'
    res = []
    for o in outs:
        if o.kind != 'return' or not isinstance(o.ret, ast.Name):
            return f'_val ends with {o.kind}' if o.kind != 'return' else 'the result is not a local object'
        if any(isinstance(b, str) for (_c, b) in o.conds):
            return 'the result depends on a condition the arguments do not decide'
        q = o.ret.id
        if q not in o.locs:
            return 'the result is not built in _val'
        res.append({'build': unparse(o.locs[q]), 'attrs': {k.split('.', 1)[1]: unparse(v) for k, v in o.locs.items() if k.startswith(q + '.')}})
    return res


# --------------------------------------------------------------------------- R16.6
class _FloatProps(ast.NodeTransformer):
    """`x.p` for x one of the two operands (same class by the guard) and p a property of that class whose body is `return float(self)` is
    `float(x)`"""

    def __init__(self, prog, cname, other):
        self.names = {'self', other}
        self.props = set()
        for k in prog.mro(cname):
            ci = prog.classes.get(k)
            if ci is None:
                continue
            for p in ci.props:
                b = body_of(ci.methods[p])
                if len(b) == 1 and isinstance(b[0], ast.Return) and b[0].value is not None and unparse(b[0].value) == 'float(self)':
                    self.props.add(p)

    def visit_Attribute(self, n):
        if isinstance(n.value, ast.Name) and n.value.id in self.names and n.attr in self.props and isinstance(n.ctx, ast.Load):
            return ast.copy_location(ast.Call(func=ast.Name(id='float', ctx=ast.Load()), args=[ast.Name(id=n.value.id, ctx=ast.Load())], keywords=[]), n)
        return self.generic_visit(n)


def _cmp_by_cases(ctx, prog, cname, fn, other, opt):
    """the comparison method, summarised path by path for float(self) <, ==, >, unordered (NaN) float(other): the returned
    expression must evaluate to what `float(self) <op> float(other)` gives in that case (E10; a difference compared with zero is
    read as the comparison of its operands only where IEEE arithmetic makes the two agree)"""
    from ..pathsum import PathSum, Unsupported, _Arith
    import copy as _copy
    a, b = 'float(self)', f'float({other})'
    want = {ast.Lt: {'lt'}, ast.LtE: {'lt', 'eq'}, ast.Gt: {'gt'}, ast.GtE: {'gt', 'eq'}, ast.Eq: {'eq'}, ast.NotEq: {'lt', 'gt', 'un'}}[opt]
    # the two operands can be one and the same object (`q == q`): then their values are equal -- or both NaN, hence unordered
    for (rel, same) in (('lt', False), ('eq', False), ('gt', False), ('un', False), ('eq', True), ('un', True)):
        env = guard_env(cname, other, True, True)
        env[('ord', a, b)] = rel
        env[('same', 'self', other)] = same
        if rel == 'un':
            env[('nan', a)] = True
        try:
            outs = PathSum(prog, cname, fn, env, assume_validated=False).run()
        except Unsupported as e:
            return False, f'not summarised ({e})'
        ctx.examined()
        if not outs:
            return False, 'no path'
        for o in outs:
            if o.kind != 'return' or o.value is None:
                return False, f'{ {"lt": "smaller", "eq": "equal", "gt": "greater", "un": "NaN"}[rel] } operand: the method ends with {o.kind}'
            if any(isinstance(bb, str) for (_c, bb) in o.conds):
                return False, f'the result depends on a condition the operands do not decide'
            v = _Arith(env).visit(_FloatProps(prog, cname, other).visit(_copy.deepcopy(o.value)))
            ast.fix_missing_locations(v)
            got = GuardEval(prog, cname, env).ev(v) if not isinstance(v, ast.Constant) else bool(v.value)
            if got is None or got != (rel in want):
                names = {'lt': 'float(self) < float(other)', 'eq': 'float(self) == float(other) (including two infinities of the same sign)',
                         'gt': 'float(self) > float(other)', 'un': 'a NaN operand'}
                if same:
                    names = {'eq': 'one and the same object on both sides', 'un': 'one and the same object with a NaN value on both sides'}
                return False, (f'for {names[rel]} it returns `{unparse(o.value)}`, which is ' +
                               ('not decided by the operands (inf - inf is NaN)' if got is None else f'{got}') + f'; required {rel in want}')
    return True, ''


def r166(ctx, ut):
    prog = ctx.prog
    ctx.rule('R16.6', 'same-type + - abs neg and the comparisons use only float(self)/float(other) and keep the left operand unit via _val')
    for cname in ('Quantity', 'SI'):
        ci = prog.cls(cname)
        for meth, opt in list(ARITH_OP.items()) + list(CMP_OP.items()):
            fn = expand_delegation(prog, cname, prog.method(cname, meth, inherited=False))
            other = fn.args.args[1].arg
            ge = GuardEval(prog, cname, guard_env(cname, other, True, True))
            r = eval_decision_list(body_of(fn), ge)
            ctx.examined()
            ok = False
            if isinstance(r, tuple):
                e = r[1]
                if meth in ARITH_OP:
                    ok = isinstance(e, ast.Call) and unparse(e.func) == 'self._val' and len(e.args) == 1 and isinstance(e.args[0], ast.BinOp) \
                        and isinstance(e.args[0].op, opt) and _is_float_of(e.args[0].left, 'self') and _is_float_of(e.args[0].right, other)
                else:
                    ok = isinstance(e, ast.Compare) and len(e.ops) == 1 and isinstance(e.ops[0], opt) and _is_float_of(e.left, 'self') \
                        and _is_float_of(e.comparators[0], other)
            elif meth in CMP_OP and r in (True, False):
                # the comparison of two float() calls is undetermined for the evaluator: inspect the final return directly
                rets = [n for n in walk_shallow(fn) if isinstance(n, ast.Return) and isinstance(n.value, ast.Compare)]
                ok = any(len(e.value.ops) == 1 and isinstance(e.value.ops[0], opt) and _is_float_of(e.value.left, 'self')
                         and _is_float_of(e.value.comparators[0], other) for e in rets)
            detail = ''
            if not ok and meth in CMP_OP:
                ok, detail = _cmp_by_cases(ctx, prog, cname, fn, other, opt)
            ctx.ob('R16.6', f'{cname}.{meth}', ok, sample=f'{cname}.{meth} (compatible operands) -> {short(r[1]) if isinstance(r, tuple) and r[1] is not None else r}')
            if not ok:
                ctx.finding('R16.6', f'{cname}.{meth}', ci, fn,
                            f'{cname}.{meth} on compatible operands is not float(self) {opt.__name__} float({other})'
                            + (' wrapped by self._val(...)' if meth in ARITH_OP else '') + (f': {detail}' if detail else ''), where=f'{cname}.{meth}')
        for meth, shape in (('__abs__', 'self._val(abs(float(self)))'), ('__neg__', 'self._val(-float(self))')):
            fn = prog.method(cname, meth, inherited=False)
            rs = [n for n in walk_shallow(fn) if isinstance(n, ast.Return)]
            ok = len(rs) == 1 and rs[0].value is not None and unparse(rs[0].value) == shape
            ctx.ob('R16.6', f'{cname}.{meth}', ok, sample=f'{cname}.{meth}: {short(rs[0].value) if rs else "-"}')
            if not ok:
                ctx.finding('R16.6', f'{cname}.{meth}', ci, fn, f'{meth} is not `{shape}`', where=f'{cname}.{meth}')
        # _val keeps the unit of self
        fn = prog.method(cname, '_val', inherited=False)
        sp_ = fn.args.args[1].arg
        vs = val_summary(prog, cname, {sp_})
        if isinstance(vs, list) and vs:
            # by cases: called with the SI value only, every path builds <class>(si) and copies unit (and signature) from self
            builds = all(r['build'] in (f'type(self)({sp_})', f'SI({sp_})', f'{cname}({sp_})') for r in vs)
            keeps = all(r['attrs'].get('_unit') == 'self._unit' for r in vs)
            sig_kept = cname != 'SI' or all(r['attrs'].get('_sisig') in ('self._sisig', 'self.sisig()', 'list(self._sisig)') for r in vs)
        else:
            keeps = any(isinstance(n, ast.Assign) and isinstance(n.targets[0], ast.Attribute) and n.targets[0].attr == '_unit' and unparse(n.value) == 'self._unit'
                        for n in walk_shallow(fn))
            builds = any(isinstance(n, ast.Call) and unparse(n.func) in ('type(self)', 'SI', cname) and len(n.args) == 1 and not n.keywords
                         for n in walk_shallow(fn))
            sig_kept = cname != 'SI' or any(isinstance(n, ast.Assign) and isinstance(n.targets[0], ast.Attribute) and n.targets[0].attr == '_sisig'
                                            and unparse(n.value) in ('self._sisig', 'self.sisig()', 'list(self._sisig)') for n in walk_shallow(fn))
        ok = keeps and builds and sig_kept
        ctx.ob('R16.6', f'{cname}._val', ok, sample=f'{cname}._val: builds from SI value without unit argument {builds}; copies unit {keeps}; copies signature {sig_kept}')
        if not ok:
            ctx.finding('R16.6', f'{cname}._val', ci, fn, '_val does not build a same-class value from the SI number carrying the unit (and signature) of self',
                        where=f'{cname}._val')
