"""C10 -- weighted and time-weighted tallies: queries total, NaN structure, timestamp protocol (DESIGN §3-C10)."""
from .. import numrules as N
from .. import statrules as T

EXPLANATION = (
    "Numeric abstract interpretation of weighted_mean / weighted_variance / weighted_stdev / weighted_sum and of "
    "register (including the _fire_events chains of the event-based and simulation variants and the timestamped "
    "subclass): every division/sqrt must be proved unable to raise; NaN-structure table over the count of non-zero "
    "weights; rejected input changes nothing; initialize resets every accumulator (timestamp state included); the "
    "timestamp protocol shape (order guard first, accumulation only while active, weight = max(0, t - last) with the "
    "previous value, end_observations = register then deactivate). Equality with the exact weight/time integrals is a "
    "statement about values and is not decided.")

GETTERS = ['n', 'min', 'max', 'weighted_sum', 'weighted_mean', 'weighted_variance', 'weighted_stdev', 'report_line']


def run(ctx):
    ctx.uses('statistics', 'utils')
    ctx.assume(N.STAT_AXIOM_REASONS[2])
    ctx.assume('real-number semantics; observations and weights are finite numbers (NaN and negative weights are refused by register)')
    ctx.assume('another instance handed to a method (merge) is a different object than self and is between two of its own method calls: its fields lie in the class invariant')
    from ..statrules import memo_soundness
    memo_soundness(ctx, 'R10.8', ['statistics'])
    from ..statrules import shared_class_state
    shared_class_state(ctx, 'R10.9', sorted(c_ for c_, ci_ in ctx.prog.classes.items() if ci_.module.name == 'statistics'),
                       'what one statistic is told (an event type to accept, an observation) reaches every other statistic of the class: each reports more than '
                       'its own observations')
    ctx.rule('R10.1', 'every weighted-tally query and register is total (numeric abstract interpretation)')
    N.run_totality(ctx, 'R10.1', {'statistics', 'utils'},
                   [('WeightedTally', GETTERS + ['register']), ('TimestampWeightedTally', GETTERS + ['register', 'end_observations']),
                    ('EventBasedWeightedTally', ['register']), ('EventBasedTimestampWeightedTally', ['register']),
                    ('SimWeightedTally', ['register']), ('SimPersistent', ['register'])],
                   axioms=N.STAT_AXIOMS, depth=12, what='a weighted-tally query')
    ctx.floor('R10.1', 'arithmetic sinks analysed', ctx.extra['numeric']['R10.1']['sinks'], 4)
    ctx.rule('R10.6', 'the axiom weight_times_variance >= 0 is justified structurally: convex mean step w/W and increment w*(x-old)*(x-new)')
    N.convex_update(ctx, 'R10.6', {'statistics', 'utils'}, 'WeightedTally', '_weighted_mean', '_weight_times_variance', 'value', N.STAT_AXIOMS)
    ctx.rule('R10.7', 'count, non-zero count, total weight, weighted sum, minimum and maximum are maintained as documented on every accepting path; zero-weight observations touch only count/min/max')
    N.accumulators(ctx, 'R10.7', {'statistics', 'utils'}, 'WeightedTally',
                   [('count', '_n'), ('count', '_n_nonzero', 'pos:weight'), ('sum', '_sum_of_weights', 'weight', 'pos:weight'),
                    ('prod_sum', '_weighted_sum', 'weight', 'value', 'pos:weight'), ('min', '_min', 'value'), ('max', '_max', 'value')], N.STAT_AXIOMS)
    classes = ['WeightedTally', 'TimestampWeightedTally', 'EventBasedWeightedTally', 'EventBasedTimestampWeightedTally', 'SimWeightedTally', 'SimPersistent']
    T.rejected_input(ctx, 'R10.2', classes)
    T.coercion_before_write(ctx, 'R10.2b', ['WeightedTally', 'TimestampWeightedTally'])
    T.reset_completeness(ctx, 'R10.3', classes)
    # the simulation variants stamp an observation with the simulator clock (the timestamped variant integrates over exactly these times) and
    # forward it unchanged otherwise (shared rule with C11)
    T.r112_notify_dispatch(ctx)
    T.timestamp_protocol(ctx)
    ctx.rule('R10.5', 'NaN exactly when undefined: weighted mean / population variance defined from 1 observation, sample variants from 2 non-zero weights')
    spec = {('weighted_mean', ()): 1, ('weighted_variance', (True,)): 1, ('weighted_variance', (False,)): 2,
            ('weighted_stdev', (True,)): 1, ('weighted_stdev', (False,)): 2}
    N.nan_table(ctx, 'R10.5', {'statistics', 'utils'}, 'WeightedTally', list(spec), '_n_nonzero', spec, extra_fields=['_n'],
                pos_fields={'WeightedTally': ['_weight_times_variance', '_sum_of_weights']})
    # all-equal observations: the weighted variance / stdev are 0, not undefined
    N.nan_table(ctx, 'R10.5', {'statistics', 'utils'}, 'WeightedTally', list(spec), '_n_nonzero', spec, extra_fields=['_n'],
                pos_fields={'WeightedTally': ['_sum_of_weights']}, zero_fields={'WeightedTally': ['_weight_times_variance']},
                label_suffix=' [all observations equal]')
