"""C09 -- Tally and Counter: every query is total; NaN exactly when undefined (DESIGN §3-C09)."""
from .. import numrules as N
from .. import statrules as T

EXPLANATION = (
    "Numeric abstract interpretation (intervals with open/closed ends + NaN flag + order facts, path-sensitive, "
    "self/super calls inlined, class invariants inferred to a fixpoint) of every Tally getter, of register and of the "
    "_fire_events chains of the event-based and simulation variants: every arithmetic sink (division, power, sqrt, "
    "inv_cdf) must be proved unable to raise; the NaN-structure of every getter is extracted with the observation "
    "count pinned to 0,1,2,3,4 and >=5 and compared with the documented thresholds; rejected observations change "
    "nothing (refuse-before-effect); initialize re-assigns every accumulator; Counter has the increment shape. "
    "Numerical accuracy of the Welford/Pebay moment recurrences (that the results equal the textbook values) is a "
    "statement about floating-point values and is not decided.")

GETTERS = ['n', 'min', 'max', 'sum', 'mean', 'variance', 'stdev', 'skewness', 'kurtosis', 'excess_kurtosis', 'confidence_interval', 'report_line']


def run(ctx):
    ctx.uses('statistics', 'utils')
    ctx.trust('math.sqrt/log/pow and statistics.NormalDist.inv_cdf raise exactly outside their documented domains')
    for a in N.STAT_AXIOM_REASONS[:2]:
        ctx.assume(a)
    ctx.assume('real-number semantics: overflow, underflow and rounding are not modelled; observations are finite numbers (NaN is refused by register)')
    ctx.rule('R9.1', 'every Tally query and register is total: no division by zero, no pow/sqrt/inv_cdf domain error on any path (numeric abstract interpretation)')
    N.run_totality(ctx, 'R9.1', {'statistics', 'utils'},
                   [('Tally', GETTERS + ['register']), ('EventBasedTally', ['register']), ('SimTally', ['register']),
                    ('Counter', ['register', 'count', 'n', 'report_line']), ('EventBasedCounter', ['register']), ('SimCounter', ['register'])],
                   axioms=N.STAT_AXIOMS, depth=12, what='a statistics query')
    sinks = ctx.extra['numeric']['R9.1']['sinks']
    ctx.floor('R9.1', 'arithmetic sinks analysed', sinks, 25)
    ctx.rule('R9.6', 'the axiom m2 >= 0 is justified structurally: Tally.register moves the mean by one convex step and adds (x-old)*(x-new) to m2')
    N.convex_update(ctx, 'R9.6', {'statistics', 'utils'}, 'Tally', '_m1', '_m2', 'value', N.STAT_AXIOMS)
    ctx.rule('R9.7', 'count / sum / minimum / maximum of Tally are maintained as n+1, sum+x, min(prev, x), max(prev, x) on every accepting path (def-use DAG)')
    N.accumulators(ctx, 'R9.7', {'statistics', 'utils'}, 'Tally', [('count', '_n'), ('sum', '_sum', 'value'), ('min', '_min', 'value'), ('max', '_max', 'value')], N.STAT_AXIOMS)
    T.rejected_input(ctx, 'R9.2', ['Counter', 'Tally', 'EventBasedCounter', 'EventBasedTally', 'SimCounter', 'SimTally'])
    T.coercion_before_write(ctx, 'R9.2b', ['Tally'])
    T.reset_completeness(ctx, 'R9.3', ['Counter', 'Tally', 'EventBasedCounter', 'EventBasedTally', 'SimCounter', 'SimTally'])
    T.counter_shape(ctx)
    ctx.rule('R9.5', 'NaN exactly when undefined: NaN-structure of every getter for 0,1,2,3,4,>=5 observations equals the documented thresholds')
    spec = {('mean', ()): 1, ('variance', (True,)): 1, ('variance', (False,)): 2, ('stdev', (True,)): 1, ('stdev', (False,)): 2,
            ('skewness', (True,)): 2, ('skewness', (False,)): 3, ('kurtosis', (True,)): 3, ('kurtosis', (False,)): 4,
            ('excess_kurtosis', (True,)): 3, ('excess_kurtosis', (False,)): 4}
    spec[('confidence_interval', (0.05,))] = 2
    N.nan_table(ctx, 'R9.5', {'statistics', 'utils'}, 'Tally', list(spec), '_n', spec, pos_fields={'Tally': ['_m2', '_m4']}, num_fields={'Tally': ['_min', '_max', '_m1']})
    # all-equal observations (every central moment is zero): mean, variance, stdev and the confidence interval stay defined (the
    # interval degenerates to the single value); skewness and kurtosis are undefined for every n
    NEVER = 10 ** 9
    spec0 = {('mean', ()): 1, ('variance', (True,)): 1, ('variance', (False,)): 2, ('stdev', (True,)): 1, ('stdev', (False,)): 2,
             ('confidence_interval', (0.05,)): 2,
             ('skewness', (True,)): NEVER, ('skewness', (False,)): NEVER, ('kurtosis', (True,)): NEVER, ('kurtosis', (False,)): NEVER,
             ('excess_kurtosis', (True,)): NEVER, ('excess_kurtosis', (False,)): NEVER}
    N.nan_table(ctx, 'R9.5', {'statistics', 'utils'}, 'Tally', list(spec0), '_n', spec0, zero_fields={'Tally': ['_m2', '_m3', '_m4']}, num_fields={'Tally': ['_min', '_max', '_m1']},
                label_suffix=' [all observations equal]')
