"""C09 -- Tally and Counter: every query is total; NaN exactly when undefined (DESIGN §3-C09)."""
from .. import numrules as N
from .. import statrules as T

EXPLANATION = (
    "Numeric abstract interpretation (intervals with open/closed ends + NaN flag + order facts, path-sensitive, "
    "self/super calls inlined, class invariants inferred to a fixpoint) of every Tally getter, of register and of the "
    "_fire_events chains of the event-based and simulation variants: every arithmetic sink (division, power, sqrt, "
    "inv_cdf) must be proved unable to raise; the NaN-structure of every getter is extracted with the observation "
    "count pinned to 0,1,2,3,4 and >=5 and compared with the documented thresholds; rejected observations change "
    "nothing (refuse-before-effect); initialize re-assigns every accumulator; Counter has the increment shape. "
    "Numerical accuracy of the Welford/Pebay moment recurrences (that the results equal the textbook values) is a "
    "statement about floating-point values and is not decided.")

GETTERS = ['n', 'min', 'max', 'sum', 'mean', 'variance', 'stdev', 'skewness', 'kurtosis', 'excess_kurtosis', 'confidence_interval', 'report_line']


def run(ctx):
    ctx.uses('statistics', 'utils')
    ctx.trust('math.sqrt/log/pow and statistics.NormalDist.inv_cdf raise exactly outside their documented domains')
    for a in N.STAT_AXIOM_REASONS[:2]:
        ctx.assume(a)
    ctx.assume('real-number semantics: overflow, underflow and rounding are not modelled; observations are finite numbers (NaN is refused by register)')
    ctx.assume('a local sequence that was checked as a whole (validation loop, any / all, converting comprehension) keeps its elements until a later loop over it: '
               'it is not mutated through another reference (e.g. by a listener that re-enters while the batch is registered)')
    from ..statrules import memo_soundness
    memo_soundness(ctx, 'R9.9', ['statistics'])
    from ..statrules import shared_class_state
    shared_class_state(ctx, 'R9.10', sorted(c_ for c_, ci_ in ctx.prog.classes.items() if ci_.module.name == 'statistics'),
                       'what one statistic is told (an event type to accept, an observation) reaches every other statistic of the class: each reports more than '
                       'its own observations')
    ctx.rule('R9.1', 'every Tally query and register is total: no division by zero, no pow/sqrt/inv_cdf domain error on any path (numeric abstract interpretation)')
    N.run_totality(ctx, 'R9.1', {'statistics', 'utils'},
                   [('Tally', GETTERS + ['register']), ('EventBasedTally', ['register']), ('SimTally', ['register']),
                    ('Counter', ['register', 'count', 'n', 'report_line']), ('EventBasedCounter', ['register']), ('SimCounter', ['register'])],
                   axioms=N.STAT_AXIOMS, depth=12, what='a statistics query')
    sinks = ctx.extra['numeric']['R9.1']['sinks']
    ctx.floor('R9.1', 'arithmetic sinks analysed', sinks, 25)
    ctx.rule('R9.6', 'the axiom m2 >= 0 is justified structurally: Tally.register moves the mean by one convex step and adds (x-old)*(x-new) to m2')
    N.convex_update(ctx, 'R9.6', {'statistics', 'utils'}, 'Tally', '_m1', '_m2', 'value', N.STAT_AXIOMS)
    ctx.rule('R9.7', 'count / sum / minimum / maximum of Tally are maintained as n+1, sum+x, min(prev, x), max(prev, x) on every accepting path (def-use DAG)')
    N.accumulators(ctx, 'R9.7', {'statistics', 'utils'}, 'Tally', [('count', '_n'), ('sum', '_sum', 'value'), ('min', '_min', 'value'), ('max', '_max', 'value')], N.STAT_AXIOMS)
    r98_moment_order(ctx)
    T.rejected_input(ctx, 'R9.2', ['Counter', 'Tally', 'EventBasedCounter', 'EventBasedTally', 'SimCounter', 'SimTally'])
    T.coercion_before_write(ctx, 'R9.2b', ['Tally'])
    T.reset_completeness(ctx, 'R9.3', ['Counter', 'Tally', 'EventBasedCounter', 'EventBasedTally', 'SimCounter', 'SimTally'])
    T.counter_shape(ctx)
    ctx.rule('R9.5', 'NaN exactly when undefined: NaN-structure of every getter for 0,1,2,3,4,>=5 observations equals the documented thresholds')
    spec = {('mean', ()): 1, ('variance', (True,)): 1, ('variance', (False,)): 2, ('stdev', (True,)): 1, ('stdev', (False,)): 2,
            ('skewness', (True,)): 2, ('skewness', (False,)): 3, ('kurtosis', (True,)): 3, ('kurtosis', (False,)): 4,
            ('excess_kurtosis', (True,)): 3, ('excess_kurtosis', (False,)): 4}
    spec[('confidence_interval', (0.05,))] = 2
    N.nan_table(ctx, 'R9.5', {'statistics', 'utils'}, 'Tally', list(spec), '_n', spec, pos_fields={'Tally': ['_m2', '_m4']}, num_fields={'Tally': ['_min', '_max', '_m1']})
    # all-equal observations (every central moment is zero): mean, variance, stdev and the confidence interval stay defined (the
    # interval degenerates to the single value); skewness and kurtosis are undefined for every n
    NEVER = 10 ** 9
    spec0 = {('mean', ()): 1, ('variance', (True,)): 1, ('variance', (False,)): 2, ('stdev', (True,)): 1, ('stdev', (False,)): 2,
             ('confidence_interval', (0.05,)): 2,
             ('skewness', (True,)): NEVER, ('skewness', (False,)): NEVER, ('kurtosis', (True,)): NEVER, ('kurtosis', (False,)): NEVER,
             ('excess_kurtosis', (True,)): NEVER, ('excess_kurtosis', (False,)): NEVER}
    N.nan_table(ctx, 'R9.5', {'statistics', 'utils'}, 'Tally', list(spec0), '_n', spec0, zero_fields={'Tally': ['_m2', '_m3', '_m4']}, num_fields={'Tally': ['_min', '_max', '_m1']},
                label_suffix=' [all observations equal]')


def r98_moment_order(ctx):
    """The one-pass recurrences of the third and fourth central moment are written in terms of the lower moments of the *previous* step
    (Pebay 2008, eq. 2.13 / 2.16).  Structural necessary condition: in Tally.register every read of a lower moment m_j (2 <= j < k) inside the
    update of m_k -- directly or through a local copied from it -- happens before m_j is written in that call."""
    import ast
    import re
    from ..cfg import CFG
    from ..core import is_self_attr, short, walk_shallow
    prog = ctx.prog
    ctx.rule('R9.8', 'moment recurrences: the update of m3 / m4 reads the previous-step values of the lower moments (no read of m_j after its own update in the same call)')
    ci = prog.cls('Tally')
    fn = prog.method('Tally', 'register', inherited=False)
    g = CFG(fn)
    mom = {}
    for x in walk_shallow(fn):
        if is_self_attr(x) and re.fullmatch(r'_m[1-4]', x.attr):
            mom[x.attr] = int(x.attr[2])
    writes = {}       # field -> [node]
    for nd in g.stmt_nodes():
        a = nd.ast
        if isinstance(a, (ast.Assign, ast.AugAssign, ast.AnnAssign)):
            for t in (a.targets if isinstance(a, ast.Assign) else [a.target]):
                for y in ast.walk(t):
                    if is_self_attr(y) and y.attr in mom and isinstance(y.ctx, ast.Store):
                        writes.setdefault(y.attr, []).append(nd)
    alias = {}        # local -> (field, defining node)
    for nd in g.stmt_nodes():
        a = nd.ast
        if isinstance(a, (ast.Assign, ast.AnnAssign)) and getattr(a, 'value', None) is not None and is_self_attr(a.value) and a.value.attr in mom:
            for t in (a.targets if isinstance(a, ast.Assign) else [a.target]):
                if isinstance(t, ast.Name):
                    alias[t.id] = (a.value.attr, nd)
    n = 0
    for f, k in sorted(mom.items()):
        if k < 3:
            continue
        for U in writes.get(f, []):
            val = U.ast.value
            reads = []
            for y in ast.walk(val):
                if is_self_attr(y) and y.attr in mom and 2 <= mom[y.attr] < k:
                    reads.append((y.attr, U, f'self.{y.attr}'))
                elif isinstance(y, ast.Name) and y.id in alias and 2 <= mom[alias[y.id][0]] < k:
                    reads.append((alias[y.id][0], alias[y.id][1], f'{y.id} = self.{alias[y.id][0]}'))
            for (fj, at, how) in reads:
                n += 1
                stale = [W for W in writes.get(fj, []) if W is not at and g.reaches(W, at)]
                ok = not stale
                ctx.ob('R9.8', f'Tally.register:{f}<-{fj}', ok, sample=f'update of {f} reads {how} before {fj} is updated: {ok}')
                if not ok:
                    ctx.finding('R9.8', f'Tally.register:{f}:reads-updated-{fj}', ci, U.ast,
                                f'the update of {f} reads {fj} (`{how}`) after `{short(stale[0].ast, 50)}` has already updated it for this observation: the recurrence '
                                f'needs the previous-step value, so {f} -- and with it ' + ('kurtosis and excess kurtosis' if k == 4 else 'skewness') + ' -- is wrong '
                                f'whenever the running lower moment is non-zero', where='Tally.register')
    ctx.floor('R9.8', 'reads of lower moments in the m3 / m4 recurrences', n, 3)
