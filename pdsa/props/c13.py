"""C13 -- seed updates depend only on stream name, seed and replication number (DESIGN §3-C13)."""
from __future__ import annotations

import ast

from ..cfg import CFG
from ..core import AnalysisError, body_of, is_self_attr, short, unparse, walk_shallow
from ..guards import GuardEval
from ..simrules import _node_containing, raise_guards_before, rbe_check

EXPLANATION = (
    "For every update_seed implementation: backward slice of the argument of stream.set_seed(...) -- it may be built "
    "only from the stream id, the stream's original seed, the replication number, the configured seed table and "
    "constants; process-varying sources (builtin hash / id, time, random, os.urandom, uuid) in the slice are "
    "violations; every load from the seed table with a caller-supplied key is dominated by a membership test (or uses "
    ".get), so unlisted streams reach the fallback updater; update_seed writes no state of the updater (order "
    "independence), the driver calls it once per key with that key's own stream; all refusals (ill-typed, negative, "
    "beyond the seed list) precede set_seed on every path, with the raise-set evaluated over (r ? 0) x (r ? len).")

NONDET_CALLS = {'hash': 'builtin hash() of a str varies with PYTHONHASHSEED from process to process',
                'id': 'object identities vary from run to run'}
NONDET_PREFIX = ('time.', 'random.', 'uuid.', 'secrets.', 'os.urandom', 'datetime.')


def run(ctx):
    prog = ctx.prog
    ctx.uses('streams')
    prog.cls('StreamUpdater')
    impls = [c for c in prog.subclasses('StreamUpdater') if 'update_seed' in prog.classes[c].methods]
    ctx.floor('R13', 'update_seed implementations', len(impls), 2)
    ctx.rule('R13.1', 'the value passed to stream.set_seed is built only from stream id, original seed, replication number, the seed table and constants')
    ctx.rule('R13.2', 'seed-table lookups with a caller-supplied key are guarded by a membership test (unlisted streams reach the fallback updater)')
    ctx.rule('R13.3', 'update_seed is stateless; update_seeds calls it once per key with that key\'s own stream')
    ctx.rule('R13.4', 'ill-typed / negative / too large replication numbers are refused before the stream is touched')
    ctx.rule('R13.5', 'every accepted update_seed call (re-)seeds the stream exactly once on every path (set_seed rewinds the generator)')
    for c in impls:
        check_updater(ctx, c)
    driver(ctx)
    rbe_check(ctx, 'R13.4', impls[0], [], '', floor=None)
    for c in impls:
        rbe_check(ctx, 'R13.4', c, ['update_seed'], 'refused seed update has already changed the stream')
    r137_live_table(ctx, impls)
    # "its original seed" is the seed the stream was created with: nothing but the constructor may set it, whatever was seeded since
    # (shared rule with C12)
    from . import c12
    for sc_ in prog.subclasses('StreamInterface'):
        c12.r123_seed_wiring(ctx, sc_)
        # "the same seed gives the same numbers": the generator a stream was seeded on is the one it draws from, also for a copy of the stream
        # (shared rule with C07 / C12)
        c12.r121_private_generator(ctx, sc_)
    from ..statrules import memo_soundness
    memo_soundness(ctx, 'R13.8', ['streams'])
    r139_virtual_fallback(ctx)
    from ..statrules import shared_class_state
    shared_class_state(ctx, 'R13.6', sorted(c for c, ci in prog.classes.items() if ci.module.name == 'streams'),
                       'the seed a stream receives depends on what other experiments / updaters in the same process configured, not only on its name, '
                       'original seed or configured list, and the replication number')


def check_updater(ctx, c):
    prog = ctx.prog
    ci = prog.cls(c)
    fn = prog.method(c, 'update_seed', inherited=False)
    sid, stream, rep = [a.arg for a in fn.args.args[1:4]]
    g = CFG(fn)
    sets = [x for x in walk_shallow(fn) if isinstance(x, ast.Call) and isinstance(x.func, ast.Attribute) and x.func.attr == 'set_seed']
    deleg = [x for x in walk_shallow(fn) if isinstance(x, ast.Call) and isinstance(x.func, ast.Attribute) and x.func.attr == 'update_seed' and not is_self_attr(x.func)]
    if not sets and not deleg:
        ctx.ob('R13.1', f'{c}.update_seed:set_seed', False)
        ctx.finding('R13.1', f'{c}.update_seed:no-set_seed', ci, fn, 'update_seed never sets a seed', where=f'{c}.update_seed')
    # R13.1 slice
    for s in sets:
        bad = []
        unknown = []
        ok_recv = unparse(s.func.value) == stream
        for x in ast.walk(s.args[0]) if s.args else []:
            if isinstance(x, ast.Call):
                f = unparse(x.func)
                if f in NONDET_CALLS:
                    bad.append((x, f'{f}(): {NONDET_CALLS[f]}'))
                elif f in ('str', 'repr', 'format', 'ascii') and x.args and any(isinstance(y, ast.Name) and y.id in (stream, 'self') for y in ast.walk(x.args[0])) \
                        and not (isinstance(x.args[0], ast.Call) or isinstance(x.args[0], ast.Attribute)):
                    # the text of an object without __str__ contains its memory address
                    bad.append((x, f'{f}() of the stream / updater object itself: the default text of an object contains its memory address, which differs from '
                                   'run to run and from object to object'))
                elif f.startswith(NONDET_PREFIX):
                    bad.append((x, f'{f}(): wall clock / global generator'))
                elif f.startswith(f'{stream}.') and f != f'{stream}.original_seed':
                    bad.append((x, f'{f}(): the current state of the stream (its present seed, its draws) depends on how the stream was used and re-seeded before -- '
                                   'only the original seed is a fixed property of the stream'))
                elif f in (f'{stream}.original_seed', 'len', 'int', 'abs', 'ord', 'sum', 'zlib.crc32', 'zlib.adler32', 'int.from_bytes', 'min', 'max') \
                        or f.endswith('.encode') or f.startswith('hashlib.') or f.endswith('.digest') or f.endswith('.hexdigest'):
                    pass
                else:
                    unknown.append(f)
            elif isinstance(x, ast.Name) and x.id not in (sid, stream, rep, 'self', 'len', 'int', 'abs', 'ord', 'sum', 'zlib', 'hashlib', 'min', 'max'):
                # locals: resolve one level
                asg = [a for a in walk_shallow(fn) if isinstance(a, ast.Assign) and any(isinstance(t, ast.Name) and t.id == x.id for t in a.targets)]
                for a in asg:
                    for y in ast.walk(a.value):
                        if isinstance(y, ast.Call) and (unparse(y.func) in NONDET_CALLS or unparse(y.func).startswith(NONDET_PREFIX)):
                            bad.append((y, f'{unparse(y.func)}() via local {x.id}'))
                        elif isinstance(y, ast.Call) and unparse(y.func).startswith(f'{stream}.') and unparse(y.func) != f'{stream}.original_seed':
                            bad.append((y, f'{unparse(y.func)}() via local {x.id}: the current state of the stream depends on how it was used and re-seeded before; '
                                           'only the original seed is a fixed property of the stream'))
                if not asg:
                    unknown.append(x.id)
        ok = ok_recv and not bad
        ctx.ob('R13.1', f'{c}.update_seed:{short(s, 30)}', ok, sample=f'{c}.update_seed: {short(s, 100)}' + (f' (calls not classified: {unknown})' if unknown else ''))
        for (x, why) in bad:
            ctx.finding('R13.1', f'{c}.update_seed:{unparse(x.func)}', ci, x, f'the seed for replication r depends on `{short(x)}` -- {why}: the same experiment draws different random numbers in another process',
                        where=f'{c}.update_seed')
        if not ok_recv:
            ctx.finding('R13.1', f'{c}.update_seed:receiver', ci, s, f'set_seed is called on `{unparse(s.func.value)}`, not on the stream passed for this key', where=f'{c}.update_seed')
    # R13.5 every accepted path seeds the stream exactly once (or hands over to the fallback updater)
    act = [x for x in sets + deleg]
    anodes = [_node_containing(g, x) for x in act]
    every = bool(anodes) and not g.reaches(g.entry, g.exit, avoid=anodes, labels_excluded=('exc', 'raise', 'reraise'))
    twice = any(g.reaches(a, b) for a in anodes for b in anodes if a is not b)
    ok = every and not twice
    ctx.ob('R13.5', f'{c}.update_seed:must-seed', ok, sample=f'{c}.update_seed: every accepted path calls set_seed / the fallback exactly once: {ok}')
    if not ok:
        ctx.finding('R13.5', f'{c}.update_seed:conditional-seed', ci, (sets or deleg or [fn])[0],
                    'an accepted update_seed call can return without (re-)seeding the stream'
                    + (' or seeds it twice' if twice else '') + ': the numbers drawn afterwards then depend on what was drawn before, not only on name, seed and replication number',
                    where=f'{c}.update_seed')
    # R13.2 guarded table lookups
    tables = set()
    init = prog.classes[c].methods.get('__init__')
    for x in walk_shallow(fn):
        if isinstance(x, ast.Subscript) and isinstance(x.ctx, ast.Load) and is_self_attr(x.value) and unparse(x.slice) == sid:
            tables.add(x.value.attr)
    for x in walk_shallow(fn):
        if isinstance(x, ast.Subscript) and isinstance(x.ctx, ast.Load) and is_self_attr(x.value) and unparse(x.slice) == sid:
            T = unparse(x.value)
            node = None
            for nd in g.stmt_nodes():
                if nd.ast is not None and any(y is x for y in ast.walk(nd.ast)):
                    node = nd
                    break
            guarded = False
            conds = g.guard_branches(node)
            for (cn, br) in conds:
                t = unparse(cn.ast)
                if (t == f'{sid} in {T}' and br) or (t in (f'{sid} not in {T}', f'not {sid} in {T}') and not br) \
                        or (t in (f'{T}.get({sid}) is None', f'{T}.get({sid}) == None') and not br) \
                        or (t in (f'{T}.get({sid}) is not None', f'{T}.get({sid}) != None', f'{T}.get({sid})') and br) \
                        or (t == f'not {T}.get({sid})' and not br):
                    guarded = True
            # the lookup inside the test itself: `sid in T and T[sid] ...`
            if not guarded and node is not None and node.kind == 'cond' and isinstance(node.ast, ast.BoolOp) and isinstance(node.ast.op, ast.And):
                vals = node.ast.values
                idx = [i for i, v in enumerate(vals) if any(y is x for y in ast.walk(v))]
                if idx and any(unparse(v) == f'{sid} in {T}' for v in vals[:idx[0]]):
                    guarded = True
            ctx.ob('R13.2', f'{c}.update_seed:{T}[{sid}]@{("cond" if node is not None and node.kind == "cond" else "stmt")}', guarded,
                   sample=f'{c}.update_seed: lookup {T}[{sid}] guarded by a membership test: {guarded}')
            if not guarded:
                ctx.finding('R13.2', f'{c}.update_seed:{T}[{sid}]:unguarded', ci, x,
                            f'`{T}[{sid}]` raises KeyError for a stream without a configured seed list instead of reaching the fallback updater',
                            where=f'{c}.update_seed')
    # fallback reachable for absent keys: a delegation on the absent branch
    if tables:
        ok = bool(deleg)
        if ok:
            node = _node_containing(g, deleg[0])
            T = f'self.{sorted(tables)[0]}'
            env_absent = {('bool', f'{sid} in {T}'): False, ('isnone', f'{T}.get({sid})'): True}
            ge = GuardEval(prog, c, env_absent)
            blocked = any((ge.ev(cn.ast) is not None and ge.ev(cn.ast) != br) for (cn, br) in g.guard_branches(node))
            ok = not blocked and [unparse(a) for a in deleg[0].args] == [sid, stream, rep]
        ctx.ob('R13.2', f'{c}.update_seed:fallback', ok, sample=f'{c}.update_seed: absent key reaches {short(deleg[0]) if deleg else "NO FALLBACK"}')
        if not ok:
            ctx.finding('R13.2', f'{c}.update_seed:fallback', ci, fn, 'a stream without a configured seed list is not handed (id, stream, replication) to the fallback updater',
                        where=f'{c}.update_seed')
    # R13.3 stateless
    writes = [n for n in walk_shallow(fn) if isinstance(n, (ast.Attribute, ast.Subscript)) and isinstance(n.ctx, (ast.Store, ast.Del))
              and unparse(n).split('.')[0].split('[')[0] in ('self', 'cls', c)]
    glob = [n for n in walk_shallow(fn) if isinstance(n, (ast.Global, ast.Nonlocal))]
    muts = [x for x in walk_shallow(fn) if isinstance(x, ast.Call) and isinstance(x.func, ast.Attribute) and isinstance(x.func.value, ast.Attribute)
            and is_self_attr(x.func.value) and x.func.attr in ('append', 'pop', 'update', 'add', 'remove', 'clear', 'setdefault', 'insert', 'extend')]
    # a memo of a pure function of its key is not state that a result can depend on: `self.M[K] = V` with V computed from the components of K
    # (and constants) alone, M read only under the same key
    memo_note = ''
    keep = []
    for w in writes:
        pure = False
        if isinstance(w, ast.Subscript) and is_self_attr(w.value) and isinstance(w.ctx, ast.Store):
            M = w.value.attr
            ktxt = unparse(w.slice)
            knames = {y.id for y in ast.walk(w.slice) if isinstance(y, ast.Name)}
            asg = [a for a in walk_shallow(fn) if isinstance(a, ast.Assign) and any(t is w for t in a.targets)]
            val = asg[0].value if len(asg) == 1 else None
            for _k in range(3):
                if isinstance(val, ast.Name) and val.id not in knames:
                    # the value of the local at the store: its latest single-name definition in the same block
                    defs_ = [a for a in walk_shallow(fn) if isinstance(a, (ast.Assign, ast.AnnAssign)) and getattr(a, 'value', None) is not None and any(
                        isinstance(t, ast.Name) and t.id == val.id for t in (a.targets if isinstance(a, ast.Assign) else [a.target]))]
                    nd_w = g.node_for(asg[0])
                    doms = [a for a in defs_ if g.dominates(g.node_for(a), nd_w) and not any(
                        b is not a and g.reaches(g.node_for(a), g.node_for(b)) and g.reaches(g.node_for(b), nd_w) for b in defs_)]
                    val = doms[0].value if len(doms) == 1 else None
                else:
                    break
            if val is not None:
                free = {y.id for y in ast.walk(val) if isinstance(y, ast.Name)} - {'zlib', 'int', 'abs', 'len', 'ord', 'hashlib', 'sum', 'min', 'max'}
                calls_ok = all(unparse(y.func) in ('zlib.crc32', 'zlib.adler32', 'int', 'abs', 'len', 'ord', 'int.from_bytes') or unparse(y.func).endswith('.encode')
                               or unparse(y.func).startswith('hashlib.') or unparse(y.func).endswith(('.digest', '.hexdigest'))
                               for y in ast.walk(val) if isinstance(y, ast.Call))
                attrs_ok = not any(isinstance(y, ast.Attribute) and isinstance(y.value, ast.Name) and y.value.id in ('self', stream) for y in ast.walk(val))
                other_uses = [y for y in walk_shallow(fn) if is_self_attr(y, M) and isinstance(y.ctx, ast.Load)]
                same_key = all(any((isinstance(p_, ast.Subscript) and p_.value is y and unparse(p_.slice) == ktxt) or
                                   (isinstance(p_, ast.Call) and isinstance(p_.func, ast.Attribute) and p_.func.value is y and p_.func.attr == 'get' and p_.args
                                    and unparse(p_.args[0]) == ktxt) or
                                   (isinstance(p_, ast.Compare) and p_.comparators[0] is y and unparse(p_.left) == ktxt)
                                   for p_ in walk_shallow(fn)) for y in other_uses)
                if free <= knames and calls_ok and attrs_ok and same_key:
                    pure = True
                    memo_note = f'; `self.{M}[{ktxt}]` memoises a value computed from its key alone'
                elif same_key:
                    extra = sorted(free - knames) + ([] if attrs_ok else ['the stream / updater'])
                    ctx.ob('R13.3', f'{c}.update_seed:memo', False)
                    ctx.finding('R13.3', f'{c}.update_seed:memo-key', ci, w,
                                f'`{short(asg[0], 70)}` memoises under the key `{ktxt}` a value that also depends on {extra}: a later call with the same key but another '
                                f'{extra[0] if extra else "input"} (another stream object of the same name, with another original seed) gets the first one\'s seed', where=f'{c}.update_seed')
                    pure = True         # reported specifically
        if not pure:
            keep.append(w)
    writes = keep
    ok = not writes and not glob and not muts
    ctx.ob('R13.3', f'{c}.update_seed:stateless', ok, sample=f'{c}.update_seed writes no updater state: {ok}' + memo_note)
    if not ok:
        x = (writes + glob + muts)[0]
        ctx.finding('R13.3', f'{c}.update_seed:state', ci, x, f'update_seed changes updater state (`{short(x)}`): the seed a stream gets depends on the order in which streams are listed',
                    where=f'{c}.update_seed')
    # R13.4 raise-sets
    if sets:
        node = _node_containing(g, sets[0])
        rg = raise_guards_before(g, node)
        bad = []
        lens = {unparse(x) for x in ast.walk(fn) if isinstance(x, ast.Call) and unparse(x.func) == 'len'}
        for sign in ('lt', 'eq', 'gt'):
            for rel in (('lt', 'eq', 'gt') if lens else ('lt',)):
                if sign == 'lt' and rel != 'lt':
                    continue
                env = {('ord', rep, '0'): sign, ('bool', f'isinstance({rep}, int)'): True, ('bool', f'isinstance({sid}, str)'): True,
                       ('bool', f'isinstance({stream}, StreamInterface)'): True}
                for L in lens:
                    env[('ord', rep, L)] = rel
                ge = GuardEval(prog, c, env)
                refused = any((ge.ev(cd) is not None and ge.ev(cd) != br) for (cd, br) in rg)
                want = sign == 'lt' or (bool(lens) and rel in ('eq', 'gt'))
                ctx.examined()
                if refused != want:
                    bad.append((sign, rel if lens else '-', refused, want))
        for tname, atom in (('replication number not an int', f'isinstance({rep}, int)'), ('stream id not a str', f'isinstance({sid}, str)'),
                            ('stream not a StreamInterface', f'isinstance({stream}, StreamInterface)')):
            env = {('ord', rep, '0'): 'gt', ('bool', f'isinstance({rep}, int)'): True, ('bool', f'isinstance({sid}, str)'): True,
                   ('bool', f'isinstance({stream}, StreamInterface)'): True}
            for L in lens:
                env[('ord', rep, L)] = 'lt'
            env[('bool', atom)] = False
            ge = GuardEval(prog, c, env)
            refused = any((ge.ev(cd) is not None and ge.ev(cd) != br) for (cd, br) in rg)
            if not refused:
                bad.append((tname, '-', False, True))
        # a stream that IS listed, with an empty seed list: every replication number is beyond the list and must be refused
        if tables:
            from ..guards import RAISE, eval_decision_list
            T = f'self.{sorted(tables)[0]}'
            env = {('ord', rep, '0'): 'gt', ('bool', f'isinstance({rep}, int)'): True, ('bool', f'isinstance({sid}, str)'): True,
                   ('bool', f'isinstance({stream}, StreamInterface)'): True, ('bool', f'{sid} in {T}'): True, ('isnone', f'{T}.get({sid})'): False,
                   ('bool', f'{T}.get({sid})'): False, ('bool', f'{T}[{sid}]'): False}
            for L in lens:
                env[('ord', rep, L)] = 'gt'
            r = eval_decision_list(body_of(fn), GuardEval(prog, c, env))
            ctx.examined()
            if r != RAISE:
                bad.append(('listed stream with an empty seed list', 'r > len = 0', False, True))
        ok = not bad
        ctx.ob('R13.4', f'{c}.update_seed:raise-set', ok, sample=f'{c}.update_seed: set_seed guarded by {[short(cd, 40) for cd, _ in rg]}; mismatches {bad}')
        if not ok:
            b = bad[0]
            ctx.finding('R13.4', f'{c}.update_seed:guards', ci, sets[0],
                        f'before set_seed: case (replication ? 0 = {b[0]}, replication ? len(seed list) = {b[1]}) is refused={b[2]}, required refused={b[3]}',
                        where=f'{c}.update_seed')
        ctx.exhaustive[f'R13.4 {c} (r ? 0) x (r ? len)'] = True


def driver(ctx):
    prog = ctx.prog
    for c in prog.subclasses('StreamUpdater', strict=False):
        ci = prog.cls(c)
        fn = ci.methods.get('update_seeds')
        if fn is None:
            continue
        streams, rep = fn.args.args[1].arg, fn.args.args[2].arg
        loops = [l for l in walk_shallow(fn) if isinstance(l, (ast.For, ast.comprehension))]
        ok = bool(loops)
        why = 'no loop over the streams'
        seen_call = False
        for l in loops:
            it = unparse(l.iter)
            if it not in (f'{streams}.keys()', streams, f'{streams}.items()', f'list({streams}.keys())', f'list({streams}.items())', f'list({streams})'):
                ok = False
                why = f'iterates `{it}` instead of the streams dict in its own order'
        for l in [x for x in loops if isinstance(x, ast.For)]:
            it = unparse(l.iter)
            calls = [x for s_ in l.body for x in ast.walk(s_) if isinstance(x, ast.Call) and isinstance(x.func, ast.Attribute) and x.func.attr == 'update_seed']
            if len(calls) == 1 and len(l.body) == 1:
                a = [unparse(x) for x in calls[0].args]
                if isinstance(l.target, ast.Name):
                    k = l.target.id
                    seen_call = seen_call or a == [k, f'{streams}[{k}]', rep]
                elif isinstance(l.target, ast.Tuple) and len(l.target.elts) == 2:
                    k, v = unparse(l.target.elts[0]), unparse(l.target.elts[1])
                    seen_call = seen_call or a == [k, v, rep]
        if ok and not seen_call:
            ok = False
            why = 'update_seed is not called once per key with that key\'s own stream and the replication number'
        ctx.ob('R13.3', f'{c}.update_seeds', ok, sample=f'{c}.update_seeds: {[short(l.iter) for l in loops]}: {ok}')
        if not ok:
            ctx.finding('R13.3', f'{c}.update_seeds', ci, fn, f'update_seeds {why}: the seeds (or the order in which a stateful fallback sees the streams) can depend on hash order / listing order',
                        where=f'{c}.update_seeds')


def r137_live_table(ctx, impls):
    """the table of configured seed lists an updater consults is the object it was constructed with -- not a copy taken at construction:
    a list configured (or replaced) afterwards through the information object must be the one the stream's seed depends on"""
    prog = ctx.prog
    ctx.rule('R13.7', 'the seed table consulted by update_seed is the constructor argument itself (no snapshot): lists configured after construction are seen')
    n = 0
    for c in impls:
        ci = prog.cls(c)
        us = prog.method(c, 'update_seed', inherited=False)
        init = ci.methods.get('__init__')
        if us is None or init is None:
            continue
        fields = {x.attr for x in walk_shallow(us) if is_self_attr(x) and isinstance(x.ctx, ast.Load)}
        params = [a.arg for a in init.args.args[1:]]
        for f in sorted(fields):
            stores = [a for a in walk_shallow(init) if isinstance(a, (ast.Assign, ast.AnnAssign)) and getattr(a, 'value', None) is not None
                      and any(is_self_attr(t, f) for t in (a.targets if isinstance(a, ast.Assign) else [a.target]))]
            if not stores:
                continue
            if all(isinstance(a.value, (ast.Dict, ast.List, ast.Set)) and not (a.value.keys if isinstance(a.value, ast.Dict) else a.value.elts)
                   or (isinstance(a.value, ast.Call) and unparse(a.value.func) in ('dict', 'list', 'set') and not a.value.args) for a in stores):
                continue                # created empty by the updater itself: working state (R13.3 decides it), not the configured table
            # only container-valued configuration (a table): a parameter whose items are read in update_seed
            table = any(isinstance(x, (ast.Subscript, ast.Compare)) and any(is_self_attr(y, f) for y in ast.walk(x)) for x in walk_shallow(us)) or \
                any(isinstance(x, ast.Call) and isinstance(x.func, ast.Attribute) and x.func.attr in ('get', 'items', 'keys', 'values', '__contains__', '__getitem__')
                    and is_self_attr(x.func.value, f) for x in walk_shallow(us))
            if not table:
                continue
            n += 1
            ok = len(stores) == 1 and isinstance(stores[0].value, ast.Name) and stores[0].value.id in params
            # ... and the parameter is not re-bound before the store
            if ok:
                p_ = stores[0].value.id
                ok = not any(isinstance(x, ast.Name) and x.id == p_ and isinstance(x.ctx, ast.Store) for x in walk_shallow(init))
            ctx.ob('R13.7', f'{c}.__init__:{f}', ok, sample=f'{c}.__init__: self.{f} = {short(stores[0].value)}')
            if not ok:
                ctx.finding('R13.7', f'{c}.__init__:{f}:snapshot', ci, stores[0],
                            f'`{short(stores[0], 60)}`: the updater keeps its own copy of the seed table instead of the object it was given: a seed list configured or replaced '
                            f'afterwards is ignored (the stream gets the fallback / stale seed, replication numbers are checked against the old list), so the seed no longer '
                            f'depends only on the configured list', where=f'{c}.__init__')
    ctx.floor('R13.7', 'seed tables kept by updaters', n, 1)


def r139_virtual_fallback(ctx):
    """Streams without a seed list are served by *the installed* fallback updater: its update_seed is called, whatever class it is.  A
    short-cut that calls the helper a stock class delegates to is the same thing only for objects of exactly that class (`type(x) is C`);
    under `isinstance(x, C)` it also by-passes the update_seed of every subclass of C."""
    prog = ctx.prog
    ctx.rule('R13.9', 'the fallback updater is reached through update_seed (dynamic dispatch); a short-cut to an implementation helper is taken for the exact class only')
    n = 0
    # read in the source as written: inlining the helper would hide the delegation this rule is about
    mod = prog.modules['streams']
    raw = ast.parse(mod.src)
    raw_classes = {c.name: c for c in raw.body if isinstance(c, ast.ClassDef)}

    class _OC:
        def __init__(self, name):
            self.name = name
    fns = [(prog.classes.get(c.name), f) for c in raw_classes.values() for f in c.body if isinstance(f, ast.FunctionDef)]
    for oc, fn in fns:
        for st in walk_shallow(fn):
            if not (isinstance(st, ast.If) and isinstance(st.test, ast.Call) and unparse(st.test.func) == 'isinstance' and len(st.test.args) == 2
                    and isinstance(st.test.args[1], ast.Name) and st.test.args[1].id in prog.classes and st.orelse):
                continue
            x = unparse(st.test.args[0])
            C = st.test.args[1].id
            fast = [c for b in st.body for c in ast.walk(b) if isinstance(c, ast.Call) and isinstance(c.func, ast.Attribute) and unparse(c.func.value) == x]
            slow = [c for b in st.orelse for c in ast.walk(b) if isinstance(c, ast.Call) and isinstance(c.func, ast.Attribute) and unparse(c.func.value) == x]
            for sc_ in slow:
                m = sc_.func.attr
                cm = next((f for f in raw_classes[C].body if isinstance(f, ast.FunctionDef) and f.name == m), None) if C in raw_classes else None
                if cm is None:
                    continue
                r = (None, cm)
                for fc in fast:
                    h = fc.func.attr
                    if h == m:
                        continue
                    delegates = any(isinstance(c, ast.Call) and isinstance(c.func, ast.Attribute) and c.func.attr == h and unparse(c.func.value) in ('self', C)
                                    for c in ast.walk(r[1]))
                    n += 1
                    ctx.ob('R13.9', f'{oc.name if oc else mod.name}.{fn.name}:{x}.{h}', not delegates,
                           sample=f'{fn.name}: under isinstance({x}, {C}) calls {x}.{h}(..) where the other branch calls {x}.{m}(..)')
                    if delegates:
                        ctx.finding('R13.9', f'{oc.name if oc else mod.name}.{fn.name}:devirtualised:{m}', oc, fc,
                                    f'under `isinstance({x}, {C})` the helper `{x}.{h}(..)` is called instead of `{x}.{m}(..)`: an updater derived from {C} that overrides '
                                    f'{m} (another formula, further refusals) is installed but never asked -- unlisted streams are not served by the fallback updater '
                                    f'that was set (the exact-class test `type({x}) is {C}` would be equivalent)', where=f'{oc.name if oc else mod.name}.{fn.name}', module=mod)
    ctx.note(f'R13.9: {n} short-cut(s) under an isinstance test examined')
