"""C11 -- simulation statistics honour warm-up and replication end; publish true values (DESIGN §3-C11)."""
from .. import simrules as S
from .. import statrules as T

EXPLANATION = (
    "Structural rules over the four simulation statistics classes and the simulator: constructor subscribes to "
    "WARMUP_EVENT (persistent: also END_REPLICATION_EVENT) on every path and assigns _simulator before the base "
    "constructor; the notify dispatch is evaluated over the event classes {data, native timestamped data, warm-up, "
    "replication end, other} and must forward the unchanged content / call initialize() / call "
    "end_observations(clock); registration in the model under the key and retrieval; the warm-up event is scheduled "
    "above normal priority (with C01's key order it precedes same-time model events); every published row "
    "(event type, payload) of every _fire_events (68 rows) matches the getter its name denotes and sibling classes "
    "publish the same sequence; ENDING is entered only with the clock at the replication end. Equality with an "
    "ordinary statistic fed the filtered observations is a statement about values and is not decided (it follows "
    "from these rules plus C09/C10).")


def run(ctx):
    ctx.uses('statistics', 'simulator', 'model', 'interfaces')
    ctx.trust('C01 R1.2 (higher priority first at equal time); C08 (listeners are notified once, in order)')
    sc = S.SimCtx(ctx.prog)
    # the statistics learn about warm-up and replication end only by being notified: every subscriber of an event type is notified, also
    # when an earlier one (un)subscribes during the notification (delivery loop over a copy: shared rule with C08 / C07)
    from . import c08
    ctx.uses('pubsub')
    c08.r81(ctx)
    c08.r89_listener_identity(ctx)
    T.r111_subscriptions(ctx)
    T.r112_notify_dispatch(ctx)
    T.r113_model_registration(ctx)
    ctx.rule('R11.4', 'the warm-up reset precedes normal-priority model events of the same instant (scheduled with a priority above NORMAL_PRIORITY)')
    S.warmup_priority(ctx, sc, 'R11.4')
    ctx.rule('R11.8', 'exactly one warm-up event per initialize, scheduled after the base initialisation reset the clock, at the replication\'s absolute warm-up time; warmup() fires WARMUP_EVENT at the clock')
    S.warmup_schedule(ctx, sc, 'R11.8')
    # the persistent statistic is the timestamp-weighted tally: its register protocol (order guard, accumulate the previous value over the
    # elapsed interval, always remember the new value) is what makes the published time average right (shared rule with C10)
    T.timestamp_protocol(ctx)
    T.r115_published_values(ctx)
    S.r116_end_after_clock(ctx, sc)
    # warm-up time and replication end are taken from the replication object (shared rule with C02 / C03 / C06)
    ctx.uses('experiment')
    S.replication_frame(ctx, 'R11.9')
    # the warm-up event precedes normal-priority events of the same instant only if the event list orders by (time, priority, id) and keeps
    # doing so after a cancellation (heap discipline, key and observers: shared rules with C01)
    from . import c01
    ctx.uses('eventlist')
    for cname_ in ctx.prog.subclasses('EventListInterface'):
        c01.check_eventlist(ctx, cname_)
    # the warm-up reset is an event like any other: whether it runs before or after a model event of the same instant is decided by the
    # comparisons of the clock values -- quantities on a Duration clock (shared rule with C01-C04 / C16)
    from . import c16
    ctx.uses('units')
    c16.r166(ctx, None)
    T.reset_completeness(ctx, 'R11.7', ['SimCounter', 'SimTally', 'SimWeightedTally', 'SimPersistent'])
    from ..statrules import shared_class_state
    shared_class_state(ctx, 'R11.10', sorted(c_ for c_, ci_ in ctx.prog.classes.items() if ci_.module.name == 'statistics'),
                       'what one statistic is told (an event type to accept, an observation) reaches every other statistic of the class: each reports more than '
                       'its own observations')
