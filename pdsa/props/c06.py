"""C06 -- replications are isolated: re-initialising gives a fresh run (DESIGN §3-C06)."""
from .. import simrules as S

EXPLANATION = (
    "Ordered must-call analysis on the CFGs of DEVSSimulator.initialize -> Simulator.initialize (dominance): the running "
    "guard precedes eventlist.clear(), which precedes the base initialisation; the clock reset dominates "
    "construct_model(), which is called exactly once on every normal path; states are set to INITIALIZED; exactly one "
    "warm-up above normal priority is scheduled. Registry rule: every container that refuses duplicates and is filled "
    "from the constructors of simulation statistics must be cleared on the initialize path before construct_model(). "
    "Reset completeness: every field written on the run path is re-assigned by initialize or by _start_impl. Refusal "
    "while running is part of the C04 admission tables (re-checked here). Equality of two replications' traces is "
    "argued from these plus C07/C12, not checked.")


def run(ctx):
    ctx.uses('simulator', 'model', 'statistics')
    # first: state shared between simulator objects (it makes every later anchor meaningless, so it is reported even when they vanish)
    S.shared_state(ctx, None, 'R6.5')
    sc = S.SimCtx(ctx.prog)
    S.r61_initialize_order(ctx, sc)
    S.r62_registries(ctx, sc)
    S.r63_reset_completeness(ctx, sc)
    S.r64_config_containers(ctx, sc)
    # "the replication start" the clock is reset to, and the warm-up time, are what the replication object reports (shared rule with C02 / C03 / C11)
    ctx.uses('experiment')
    S.replication_frame(ctx, 'R6.6')
    # "whatever happened in the replication before": a start command runs with its own bound and inclusiveness, not with what an earlier
    # command left behind in the simulator (shared rule with C03)
    S.r31_horizon(ctx, sc)
    # "discards every event still pending": initialize relies on the event list's clear() and on its membership answers afterwards
    # (observers and heap discipline: shared rules with C01)
    # "rebuilds the model ... including models that create their statistics there": a statistic created by construct_model() registers itself
    # in the model whenever the simulator has one (shared rule with C11)
    from .. import statrules as T
    T.r113_model_registration(ctx)
    from . import c01
    ctx.uses('eventlist', 'simevent')
    for cname_ in ctx.prog.subclasses('EventListInterface'):
        c01.check_eventlist(ctx, cname_)
    # replications are chained from END_REPLICATION listeners: the end must be announced last (shared rule with C04)
    S.r43_notifications(ctx, sc)
