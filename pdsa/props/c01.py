"""C01 -- the event list is a faithful priority queue (DESIGN §3-C01, rules R1.1-R1.6)."""
from __future__ import annotations

import ast
import itertools

from ..cfg import CFG
from ..core import (AnalysisError, NOCONST, body_of, const_value, is_self_attr, mangle, short, unparse,
                    walk_shallow)
from ..guards import GuardEval, canon, ctext, eval_decision_list

EXPLANATION = (
    "Static proof by representation invariant: every statement of every concrete event-list class that mutates "
    "the heap-backed list is classified (heapq operation / order-preserving / order-breaking); a breaking mutation "
    "must be followed on every CFG path to a normal return by heapq.heapify (or the _siftup/_siftdown pair); the "
    "backing list may not escape the class. Key shape (time, strictly-decreasing-in-priority, id) of the pushed "
    "tuple and agreement of the reader tuples with it, immutability of the key fields, the id counter, the "
    "observers (size/is_empty/peek/pop/contains/remove/clear) and an exhaustive evaluation of SimEvent.__cmp__ and "
    "its six operators over all 27 orderings of (time, priority, id). By induction over operations the heap "
    "invariant holds after every history. Decides the structural clauses, not executions.")

PRESERVING_HEAPQ = {'heappush', 'heappop', 'heapify', 'heapreplace', 'heappushpop'}
RESTORE_SIFT = {'_siftup', '_siftdown'}
LIST_MUTATORS = {'append', 'extend', 'insert', 'remove', 'pop', 'clear', 'sort', 'reverse'}
READ_METHODS = {'count', 'index', 'copy', '__len__', '__contains__', '__iter__'}


def _heapq_call(n):
    """('name', first_arg) for heapq.name(first, ...)"""
    if isinstance(n, ast.Call) and isinstance(n.func, ast.Attribute) and isinstance(n.func.value, ast.Name) \
            and n.func.value.id == 'heapq' and n.args:
        return n.func.attr, n.args[0]
    return None


def _is_empty_list(v):
    return (isinstance(v, ast.List) and not v.elts) or (isinstance(v, ast.Call) and unparse(v.func) == 'list' and not v.args)


def run(ctx):
    prog = ctx.prog
    ctx.uses('eventlist', 'simevent')
    ctx.trust('documented contracts of heapq (heappush/heappop/heapify keep the heap invariant; heap[0] is the minimum) and list')
    ctx.assume('event times are totally ordered (NaN times are excluded by C02 R2.3)')
    prog.cls('EventListInterface')
    concrete = [c for c in prog.subclasses('EventListInterface')]
    ctx.floor('R1.1', 'concrete event list classes', len(concrete), 1)
    for cname in concrete:
        check_eventlist(ctx, cname)
    r13_key_immutable(ctx)
    r14_counter(ctx)
    r16_cmp(ctx)
    r17_shared(ctx)
    # event times may be quantities (Duration clocks): their ordering operators must be the ordering of the SI values for the
    # event comparison above to be a total order (shared rule with C16 / C17)
    from . import c16
    ctx.uses('units')
    c16.r166(ctx, None)


def r17_shared(ctx):
    from ..statrules import shared_class_state
    shared_class_state(ctx, 'R1.7', sorted(c for c, ci in ctx.prog.classes.items() if ci.module.name in ('eventlist', 'simevent')),
                       'an event scheduled on one event list appears on (and is popped from) every other event list')


# --------------------------------------------------------------------------- R1.1 / R1.2 / R1.5
def check_eventlist(ctx, cname):
    prog = ctx.prog
    ci = prog.cls(cname)
    # ---- backing field
    fields = set()
    for fn in ci.methods.values():
        for n in walk_shallow(fn):
            hc = _heapq_call(n)
            if hc and is_self_attr(hc[1]):
                fields.add(hc[1].attr)
    if len(fields) != 1:
        raise AnalysisError(f'R1.1: {cname} does not use exactly one heapq-backed list field (found {sorted(fields)}); '
                            f'unknown representation, the heap-discipline rule cannot be applied')
    F = fields.pop()
    isF = lambda n: is_self_attr(n, F)

    ctx.rule('R1.1', f'heap discipline of {cname}.{F}: every mutation preserving, or restored on every path; no escape')
    nmut = 0
    lazy = deferred_restore(ctx, cname, ci, F, isF)
    if lazy is not None:
        D_, lazy_probs = lazy
        for mname, probs in lazy_probs.items():
            ctx.examined()
            ctx.ob('R1.1', f'{cname}.{mname}:deferred-restore', not probs,
                   sample=f'{cname}.{mname}: heap order or flag `{D_}` at every exit, order restored before every use: {not probs}')
            for (node_, msg_) in probs[:2]:
                ctx.finding('R1.1', f'{cname}.{mname}:deferred-restore', ci, node_, msg_, where=f'{cname}.{mname}')
    for mname, fn in ci.methods.items():
        cfg = None
        breaking, restore_h, restore_up, restore_down = [], [], [], []
        for stmt_node in ast.walk(fn):
            pass
        g = CFG(fn)
        for node in g.stmt_nodes():
            a = node.ast
            if a is None:
                continue
            kinds = classify_mutations(a, isF, node)
            for (kind, what) in kinds:
                nmut += 1
                ctx.examined()
                if kind == 'breaking':
                    breaking.append((node, what))
                elif kind == 'heapify':
                    restore_h.append(node)
                elif kind == '_siftup':
                    restore_up.append(node)
                elif kind == '_siftdown':
                    restore_down.append(node)
                if kind != 'breaking':
                    ctx.ob('R1.1', f'{cname}.{mname}:{what}', True, sample=f'{cname}.{mname}: `{what}` is order-preserving ({kind})')
        for (node, what) in breaking:
            if mname == '__init__' and not restore_h:
                pass
            # path from the breaking mutation to the normal exit avoiding restoring calls?
            p1 = g.reaches(node, g.exit, avoid=restore_h + restore_up, labels_excluded=('exc', 'raise', 'reraise'))
            p2 = g.reaches(node, g.exit, avoid=restore_h + restore_down, labels_excluded=('exc', 'raise', 'reraise'))
            ok = not (p1 or p2)
            if not ok and lazy is not None:
                ok = True                  # decided by the typestate of the deferred restore above (proved, or reported there)
            if not ok:
                # deleting the LAST element of a heap leaves a heap: a path that skips the restoring call is fine when it has established
                # `i >= len(F)` for the deleted position i after the deletion (`if i < len(F): heapify(F)`)
                idx = None
                for n_ in walk_shallow(node.ast):
                    if isinstance(n_, ast.Subscript) and isF(n_.value) and isinstance(n_.ctx, ast.Del) and isinstance(n_.slice, ast.Name):
                        idx = n_.slice.id
                    elif isinstance(n_, ast.Call) and isinstance(n_.func, ast.Attribute) and n_.func.attr == 'pop' and isF(n_.func.value) \
                            and len(n_.args) == 1 and isinstance(n_.args[0], ast.Name):
                        idx = n_.args[0].id
                if idx is not None:
                    exempt = {}             # cond node id -> label of the branch on which the deleted element was the last one
                    after_del = g.reachable_from(node)
                    other_mut = [x for x in g.stmt_nodes() if x is not node and x.ast is not None and any(k_ == 'breaking' or k_ == 'heapq'
                                                                                                          for (k_, _w) in classify_mutations(x.ast, isF, x))]

                    def len_offset(e, depth=0):
                        """k such that e == len(F) as it is AFTER the deletion, plus k; None when e is not such a length"""
                        if isinstance(e, ast.Call) and unparse(e.func) == 'len' and len(e.args) == 1 and isF(e.args[0]):
                            return 0                      # read where it stands: the caller corrects for reads in front of the deletion
                        if isinstance(e, ast.BinOp) and isinstance(e.op, (ast.Add, ast.Sub)) and isinstance(e.right, ast.Constant) and isinstance(e.right.value, int) \
                                and not isinstance(e.right.value, bool):
                            k_ = len_offset(e.left, depth)
                            return None if k_ is None else (k_ + e.right.value if isinstance(e.op, ast.Add) else k_ - e.right.value)
                        if isinstance(e, ast.Name) and depth < 2:
                            defs = [x for x in g.stmt_nodes() if isinstance(x.ast, (ast.Assign, ast.AnnAssign)) and getattr(x.ast, 'value', None) is not None
                                    and any(isinstance(t, ast.Name) and t.id == e.id for t in (x.ast.targets if isinstance(x.ast, ast.Assign) else [x.ast.target]))]
                            stores_ = sum(1 for y in walk_shallow(fn) if isinstance(y, ast.Name) and y.id == e.id and isinstance(y.ctx, ast.Store))
                            if len(defs) != 1 or stores_ != 1:
                                return None
                            k_ = len_offset(defs[0].ast.value, depth + 1)
                            if k_ is None:
                                return None
                            before = defs[0].id not in after_del and node.id in g.reachable_from(defs[0])
                            after = defs[0].id in after_del and node.id not in g.reachable_from(defs[0])
                            if before:
                                return k_ + 1             # the list was one longer when this was read
                            return k_ if after else None
                        return None
                    for cn in g.nodes:
                        if cn.kind != 'cond' or cn.ast is None or not isinstance(cn.ast, ast.Compare) or len(cn.ast.ops) != 1 or other_mut:
                            continue
                        if cn.id not in after_del:
                            continue
                        le_, re_, op_ = cn.ast.left, cn.ast.comparators[0], cn.ast.ops[0]
                        if unparse(re_) == idx and unparse(le_) != idx:
                            le_, re_ = re_, le_
                            op_ = {ast.Lt: ast.Gt, ast.Gt: ast.Lt, ast.LtE: ast.GtE, ast.GtE: ast.LtE}.get(type(op_), type(op_))()
                        if unparse(le_) != idx:
                            continue
                        k_ = len_offset(re_)
                        if k_ is None:
                            continue
                        # the deleted position i satisfied i <= len(F) (after); "it was the last one" is i >= len(F) (after)
                        if isinstance(op_, ast.GtE) and k_ >= 0 or isinstance(op_, ast.Gt) and k_ >= -1 or isinstance(op_, ast.Eq) and k_ >= 0:
                            exempt[cn.id] = 'T'
                        elif isinstance(op_, ast.Lt) and k_ >= 0 or isinstance(op_, ast.LtE) and k_ >= -1 or isinstance(op_, ast.NotEq) and k_ >= 0:
                            exempt[cn.id] = 'F'
                    if exempt:
                        restoring = {x.id for x in restore_h} | ({x.id for x in restore_up} & {x.id for x in restore_down})
                        after_ = g.reachable_from(node)
                        changed_between = [x for x in g.stmt_nodes() if x is not node and x.id in after_ and x.ast is not None and any(
                            (isinstance(y, ast.Name) and y.id == idx and isinstance(y.ctx, ast.Store)) for y in walk_shallow(x.ast))]
                        seen_, todo_ = set(), [node]
                        bad_path = False
                        while todo_ and not changed_between:
                            x = todo_.pop()
                            if x.id in seen_:
                                continue
                            seen_.add(x.id)
                            for (s_, lab) in x.succ:
                                if lab in ('exc', 'raise', 'reraise') or s_.id in restoring:
                                    continue
                                if x.id in exempt and lab == exempt[x.id]:
                                    continue
                                if s_ is g.exit:
                                    bad_path = True
                                todo_.append(s_)
                        ok = not bad_path and not changed_between
            ctx.ob('R1.1', f'{cname}.{mname}:{what}', ok,
                   sample=f'{cname}.{mname}: `{what}` breaks heap order; restored on every path to return: {ok}')
            if not ok:
                ctx.finding('R1.1', f'{cname}.{mname}:{what.split("(")[0]}', ci, node.ast,
                            f'`{what}` can break the heap order of {F} and a path to a normal return has no '
                            f'heapq.heapify({F}) (or _siftup+_siftdown) after it: later pop_first/peek_first may not '
                            f'return the minimum', where=f'{cname}.{mname}')
        # escape check
        for n in walk_shallow(fn):
            if isF(n) and isinstance(n.ctx, ast.Load):
                ctx.examined()
                esc = escape_context(fn, n)
                if esc:
                    ctx.ob('R1.1', f'{cname}.{mname}:escape:{esc}', False)
                    ctx.finding('R1.1', f'{cname}.{mname}:escape', ci, n,
                                f'backing list {F} escapes the class ({esc}); the heap invariant can be broken from outside',
                                where=f'{cname}.{mname}')
    ctx.floor('R1.1', f'mutation sites of {cname}.{F}', nmut, 3)
    # who-may-touch over the package
    outside = 0
    for oc, fn, mod in prog.functions():
        if oc is not None and oc.name in prog.mro(cname) and oc.name == cname:
            continue
        for n in walk_shallow(fn):
            if isinstance(n, ast.Attribute) and n.attr == F:
                outside += 1
                ctx.finding('R1.1', f'{oc.name if oc else mod.name}.{fn.name}:outside-access', oc, n,
                            f'{F} of the event list is accessed outside {cname}', where=f'{oc.name if oc else mod.name}.{fn.name}',
                            module=mod)
    ctx.ob('R1.1', f'{cname}:who-may-touch', outside == 0, sample=f'no function outside {cname} touches .{F}: {outside == 0}')

    # ---- R1.2 key shape
    ctx.rule('R1.2', f'key pushed by {cname}.add is (time, strictly decreasing in priority, id[, event]); reader tuples equal it')
    add = prog.method(cname, 'add', inherited=False)
    ev = add.args.args[1].arg if len(add.args.args) > 1 else None
    if ev is None:
        raise AnalysisError(f'R1.2: {cname}.add has no event parameter')
    pushes = [n for n in walk_shallow(add) if _heapq_call(n) and _heapq_call(n)[0] in ('heappush', 'heappushpop') and isF(_heapq_call(n)[1])]
    if len(pushes) != 1 or len(pushes[0].args) < 2:
        # a raw append/insert in add was already reported by R1.1; without a push there is no key to inspect
        ctx.ob('R1.2', f'{cname}.add:push', False)
        ctx.finding('R1.2', f'{cname}.add:no-heappush', ci, add, f'{cname}.add does not insert with exactly one heapq.heappush({F}, key)',
                    where=f'{cname}.add')
        return
    key = pushes[0].args[1]
    ev_index = None
    writer = None
    if isinstance(key, ast.Name) and key.id == ev:
        ev_index = None          # events themselves are the heap items: order = SimEvent comparison (R1.6)
        writer = ('event',)
        ctx.ob('R1.2', f'{cname}.add:key', True, sample='heap items are the events; order decided by SimEvent.__lt__ (R1.6)')
    elif isinstance(key, ast.Tuple):
        comps = [classify_component(prog, e, ev) for e in key.elts]
        writer = tuple(comps)
        good = len(comps) >= 3 and comps[0] == 'time' and comps[1] == 'prio-' and comps[2] == 'id' and \
            all(c in ('event', 'time', 'id', 'prio-') for c in comps[3:]) and 'event' not in comps[:3]
        ctx.ob('R1.2', f'{cname}.add:key', good, sample=f'{cname}.add pushes {short(key)} = {comps}')
        if not good:
            ctx.finding('R1.2', f'{cname}.add:key-shape', ci, key,
                        f'heap key {comps} is not (time, strictly-decreasing-in-priority, id, ...): ties are not broken '
                        f'by higher priority then earlier creation', where=f'{cname}.add')
        if 'event' in comps:
            ev_index = comps.index('event')
    else:
        ctx.ob('R1.2', f'{cname}.add:key', False)
        ctx.finding('R1.2', f'{cname}.add:key-shape', ci, key, 'heap key is neither a tuple display nor the event', where=f'{cname}.add')
        return
    # reader tuples
    for mname in ('contains', 'remove'):
        fn = ci.methods.get(mname)
        if fn is None:
            raise AnalysisError(f'anchor vanished: {cname}.{mname}')
        p = fn.args.args[1].arg if len(fn.args.args) > 1 else None
        for n in walk_shallow(fn):
            cand = None
            if isinstance(n, ast.Call) and isinstance(n.func, ast.Attribute) and isF(n.func.value) \
                    and n.func.attr in ('count', 'remove', 'index') and n.args:
                cand = n.args[0]
            elif isinstance(n, ast.Compare) and any(isinstance(o, (ast.In, ast.NotIn)) for o in n.ops) and any(isF(c) for c in n.comparators):
                cand = n.left
            if cand is None:
                continue
            if isinstance(cand, ast.Tuple):
                reader = tuple(classify_component(prog, e, p) for e in cand.elts)
            elif isinstance(cand, ast.Name) and cand.id == p:
                reader = ('event',)
            else:
                reader = ('?',)
            ok = reader == writer
            ctx.ob('R1.2', f'{cname}.{mname}:reader-key', ok, sample=f'{cname}.{mname} looks up {short(cand)} = {list(reader)}; writer {list(writer)}')
            if not ok:
                ctx.finding('R1.2', f'{cname}.{mname}:reader-key', ci, cand,
                            f'{mname} looks up {list(reader)} but add stores {list(writer)}: membership/removal disagree with the stored set',
                            where=f'{cname}.{mname}')

    r15_observers(ctx, cname, ci, F, ev_index, isF, writer)


def deferred_restore(ctx, cname, ci, F, isF):
    """Heap order restored lazily: removals raise a flag instead of re-heapifying, and every operation that relies on the order first
    restores it when the flag is up.  Decided as a typestate over (heap order holds?, flag up?): every method starts from the class
    invariant `order holds or flag up`; a breaking mutation clears the first component, heapify / clear / a fresh list set it, stores of
    constants into the flag set the second, tests of the flag split the state, methods of self are walked in place.  Required: the
    invariant at every normal exit, and `order holds` wherever heapq functions or F[0] are used.
    -> None when the class has no such flag; else {method name: [(node, message)]} (empty lists = proved)."""
    # the flag: a field tested in front of a heapify and assigned constants only
    flags = set()
    for fn in ci.methods.values():
        for st in walk_shallow(fn):
            if isinstance(st, ast.If) and any(_heapq_call(x) and _heapq_call(x)[0] == 'heapify' and isF(_heapq_call(x)[1]) for b in st.body for x in ast.walk(b)):
                t = st.test
                if isinstance(t, ast.UnaryOp) and isinstance(t.op, ast.Not):
                    continue
                if is_self_attr(t):
                    flags.add(t.attr)
    flags = {D for D in flags if all(isinstance(a.value, ast.Constant) and isinstance(a.value.value, bool)
                                     for fn in ci.methods.values() for a in walk_shallow(fn)
                                     if isinstance(a, (ast.Assign, ast.AnnAssign)) and getattr(a, 'value', None) is not None
                                     and any(is_self_attr(t, D) for t in (a.targets if isinstance(a, ast.Assign) else [a.target])))}
    if len(flags) != 1:
        return None
    D = next(iter(flags))
    INV = frozenset({(True, False), (True, True), (False, True)})
    problems = {}

    class _Ret(Exception):
        pass

    def step_expr(e, states, out, where, depth):
        """effects and requirements of one expression (in evaluation order as far as it matters here)"""
        for n in ast.walk(e):
            hc = _heapq_call(n)
            if hc and isF(hc[1]):
                if hc[0] == 'heapify':
                    states = frozenset((True, f) for (_h, f) in states)
                elif hc[0] in PRESERVING_HEAPQ or hc[0] in ('nsmallest', 'nlargest'):
                    if any(not h for (h, _f) in states):
                        out.append((n, f'`{short(n)}` relies on the heap order of {F}, but a removal whose restore was deferred (flag `{D}` up) may not have been '
                                       f'restored on this path: the entry handled here need not be the smallest'))
                    # the operation itself keeps a heap a heap
                else:
                    states = frozenset((False, f) for (_h, f) in states)
            elif isinstance(n, ast.Subscript) and isF(n.value) and isinstance(n.ctx, ast.Load) and const_value(n.slice) == 0:
                if any(not h for (h, _f) in states):
                    out.append((n, f'`{short(n)}` is read as the smallest entry, but a removal whose restore was deferred (flag `{D}` up) may not have been restored '
                                   f'on this path: {F}[0] need not be the minimum'))
            elif isinstance(n, ast.Call) and isinstance(n.func, ast.Attribute) and isF(n.func.value):
                m = n.func.attr
                if m == 'clear':
                    states = frozenset((True, f) for (_h, f) in states)
                elif m == 'pop' and not n.args:
                    pass
                elif m in LIST_MUTATORS:
                    states = frozenset((False, f) for (_h, f) in states)
            elif isinstance(n, ast.Subscript) and isF(n.value) and isinstance(n.ctx, (ast.Store, ast.Del)):
                states = frozenset((False, f) for (_h, f) in states)
            elif isinstance(n, ast.Call) and isinstance(n.func, ast.Attribute) and isinstance(n.func.value, ast.Name) and n.func.value.id == 'self' \
                    and n.func.attr in ci.methods and depth < 3:
                callee = ci.methods[n.func.attr]
                states = walk_fn(callee, states, out, depth + 1)
        return states

    def walk_block(stmts, states, out, rets, where, depth):
        for st in stmts:
            if not states:
                return states
            if isinstance(st, ast.If):
                t = st.test
                neg = False
                while isinstance(t, ast.UnaryOp) and isinstance(t.op, ast.Not):
                    t, neg = t.operand, not neg
                if is_self_attr(t, D):
                    s_t = frozenset(x for x in states if x[1] != neg)
                    s_f = frozenset(x for x in states if x[1] == neg)
                else:
                    states = step_expr(st.test, states, out, where, depth)
                    s_t = s_f = states
                a = walk_block(st.body, s_t, out, rets, where, depth)
                b = walk_block(st.orelse, s_f, out, rets, where, depth)
                states = a | b
            elif isinstance(st, ast.Return):
                if st.value is not None:
                    states = step_expr(st.value, states, out, where, depth)
                rets.append(states)
                return frozenset()
            elif isinstance(st, ast.Raise):
                return frozenset()
            elif isinstance(st, (ast.Assign, ast.AnnAssign)) and getattr(st, 'value', None) is not None:
                states = step_expr(st.value, states, out, where, depth)
                for t in (st.targets if isinstance(st, ast.Assign) else [st.target]):
                    if is_self_attr(t, D) and isinstance(st.value, ast.Constant):
                        states = frozenset((h, bool(st.value.value)) for (h, _f) in states)
                    elif isF(t):
                        states = frozenset((_is_empty_list(st.value), f) for (_h, f) in states)
                    else:
                        states = step_expr(t, states, out, where, depth)
            elif isinstance(st, (ast.For, ast.While)):
                if isinstance(st, ast.For):
                    states = step_expr(st.iter, states, out, where, depth)
                acc = states
                for _i in range(4):
                    if isinstance(st, ast.While):
                        acc = step_expr(st.test, acc, out if _i == 3 else [], where, depth)
                    nxt = walk_block(st.body, acc, out if _i == 3 else [], rets if _i == 3 else [], where, depth) | acc
                    if nxt == acc and _i < 3:
                        continue
                    acc = nxt
                states = walk_block(st.orelse, acc, out, rets, where, depth) if st.orelse else acc
            elif isinstance(st, ast.Try):
                a = walk_block(st.body, states, out, rets, where, depth)
                hs = frozenset()
                for h in st.handlers:
                    hs |= walk_block(h.body, states | a, out, rets, where, depth)      # the exception may come before or after the effects of the body
                a = walk_block(st.orelse, a, out, rets, where, depth) if st.orelse else a
                states = a | hs
                if st.finalbody:
                    states = walk_block(st.finalbody, states, out, rets, where, depth)
            elif isinstance(st, ast.With):
                states = walk_block(st.body, states, out, rets, where, depth)
            elif isinstance(st, ast.Delete):
                for t in st.targets:
                    states = step_expr(t, states, out, where, depth)
            elif isinstance(st, (ast.Expr, ast.AugAssign)):
                states = step_expr(st.value, states, out, where, depth)
            elif isinstance(st, (ast.Pass, ast.Break, ast.Continue, ast.Assert, ast.Global, ast.Nonlocal)):
                pass
        return states

    def walk_fn(fn, states, out, depth):
        rets = []
        end = walk_block(body_of(fn), states, out, rets, fn.name, depth)
        res = end
        for r in rets:
            res |= r
        return res

    for mname, fn in ci.methods.items():
        out = []
        entry = frozenset({(True, False)}) if mname == '__init__' else INV
        end = walk_fn(fn, entry, out, 0)
        if any((not h) and (not f) for (h, f) in end):
            out.append((fn, f'{mname}() can return with the heap order of {F} broken and the flag `{D}` down: nothing will restore the order before the next '
                            f'pop_first / peek_first'))
        problems[mname] = out
    return D, problems


def classify_mutations(a, isF, node):
    """[(kind, text)] for the mutations of F performed by CFG node payload a"""
    out = []
    # for conditions / for-iters / with-items the payload is an expression; for statements a stmt
    for n in walk_shallow(a):
        hc = _heapq_call(n)
        if hc and isF(hc[1]):
            name = hc[0]
            if name == 'heapify':
                out.append(('heapify', short(n)))
            elif name in PRESERVING_HEAPQ:
                out.append(('heapq', short(n)))
            elif name in RESTORE_SIFT:
                out.append((name, short(n)))
            elif name in ('nlargest', 'nsmallest', 'merge'):
                pass
            else:
                out.append(('breaking', short(n)))
        elif isinstance(n, ast.Call) and isinstance(n.func, ast.Attribute) and isF(n.func.value):
            m = n.func.attr
            if m == 'clear' or (m == 'pop' and not n.args and not n.keywords):
                out.append(('preserving', short(n)))
            elif m in LIST_MUTATORS or m.startswith('__i') or m in ('__setitem__', '__delitem__'):
                out.append(('breaking', short(n)))
        elif isinstance(n, (ast.Subscript,)) and isF(n.value) and isinstance(n.ctx, (ast.Store, ast.Del)):
            out.append(('breaking', short(n) + (' = …' if isinstance(n.ctx, ast.Store) else ' (del)')))
    if isinstance(a, ast.Assign):
        for t in a.targets:
            if isF(t):
                out.append(('preserving' if _is_empty_list(a.value) else 'breaking', short(a)))
    elif isinstance(a, ast.AnnAssign) and isF(a.target) and a.value is not None:
        out.append(('preserving' if _is_empty_list(a.value) else 'breaking', short(a)))
    elif isinstance(a, ast.AugAssign) and isF(a.target):
        out.append(('breaking', short(a)))
    elif isinstance(a, ast.Delete):
        for t in a.targets:
            if isF(t):
                out.append(('breaking', short(a)))
    return out


def _parent_map(fn):
    pm = {}
    for p in ast.walk(fn):
        for c in ast.iter_child_nodes(p):
            pm[id(c)] = p
    return pm


def escape_context(fn, n):
    """why a Load of self.F lets the list escape, or None"""
    pm = _parent_map(fn)
    p = pm.get(id(n))
    if isinstance(p, ast.Attribute):                    # self.F.method
        return None
    if isinstance(p, ast.Subscript) and p.value is n:   # self.F[i]
        # a slice load copies; an element load hands out an element, not the list
        return None
    if isinstance(p, ast.Call):
        f = unparse(p.func)
        if f.startswith('heapq.') or f in ('len', 'str', 'repr', 'iter', 'list', 'tuple', 'sorted', 'bool', 'any', 'all',
                                           'enumerate', 'reversed', 'min', 'max', 'sum'):
            return None
        return f'passed to {f}()'
    if isinstance(p, (ast.For, ast.comprehension)) and p.iter is n:
        return None
    if isinstance(p, ast.Compare):
        return None
    if isinstance(p, (ast.UnaryOp, ast.BoolOp, ast.If, ast.While, ast.IfExp)):
        return None
    if isinstance(p, ast.Return):
        return 'returned to the caller'
    if isinstance(p, (ast.Assign, ast.AnnAssign, ast.AugAssign, ast.NamedExpr)):
        return 'aliased by assignment'
    if isinstance(p, (ast.Tuple, ast.List, ast.Dict, ast.Set)):
        return 'stored in a container'
    if isinstance(p, ast.Expr):
        return None
    return f'used in {type(p).__name__}'


def classify_component(prog, e, ev):
    """'time' | 'prio-' (strictly decreasing in priority) | 'prio+' | 'id' | 'event' | '?' for a key component"""
    if ev is None:
        return '?'
    c = canon(prog, 'SimEvent', e, receivers=(ev,))
    fields = simevent_fields(prog)
    def base(x):
        if isinstance(x, ast.Name) and x.id == ev:
            return 'event'
        if isinstance(x, ast.Attribute) and isinstance(x.value, ast.Name) and x.value.id == ev:
            return fields.get(x.attr, '?')
        return '?'
    b = base(c)
    if b == 'priority':
        return 'prio+'
    if b in ('time', 'id', 'event'):
        return b
    if isinstance(c, ast.UnaryOp) and isinstance(c.op, ast.USub) and base(c.operand) == 'priority':
        return 'prio-'
    if isinstance(c, ast.BinOp) and isinstance(c.op, ast.Sub) and base(c.right) == 'priority' and \
            isinstance(c.left, (ast.Constant, ast.Attribute, ast.Name)) and base(c.left) == '?':
        return 'prio-'
    if isinstance(c, ast.BinOp) and isinstance(c.op, ast.Mult):
        for (x, y) in ((c.left, c.right), (c.right, c.left)):
            v = const_value(x)
            if v is not NOCONST and isinstance(v, (int, float)) and v < 0 and base(y) == 'priority':
                return 'prio-'
    return '?'


_SF = {}


def simevent_fields(prog):
    """field name -> role, derived from the properties time / priority / id of SimEvent"""
    if id(prog) in _SF:
        return _SF[id(prog)]
    out = {}
    for role in ('time', 'priority', 'id'):
        r = prog.simple_return('SimEvent', role)
        if r is None or not is_self_attr(r):
            raise AnalysisError(f'anchor vanished: SimEvent.{role} is not a property returning a field')
        out[r.attr] = role
        out[role] = role
    _SF[id(prog)] = out
    return out


# --------------------------------------------------------------------------- linear scans
class Scan:
    """`v = len(F) - 1; while v >= 0 and F[v] != K: v -= 1`  (down)   or   `v = 0; while v < len(F) and F[v] != K: v += 1`  (up).
    The range test is exact and evaluated first, the step is one, K does not mention v: after the loop v is the position of an
    element equal to K, or -1 (down) / len(F) (up) exactly when no element equals K."""

    def __init__(self, var, direction, key, loop):
        self.var, self.direction, self.key, self.loop = var, direction, key, loop

    def found_test(self, op, rhs, isF):
        c = const_value(rhs)
        if self.direction == 'down':
            return (isinstance(op, ast.GtE) and c == 0) or (isinstance(op, ast.Gt) and c == -1) or (isinstance(op, ast.NotEq) and c == -1)
        is_len = isinstance(rhs, ast.Call) and unparse(rhs.func) == 'len' and len(rhs.args) == 1 and isF(rhs.args[0])
        return is_len and isinstance(op, (ast.Lt, ast.NotEq))


def linear_scans(fn, isF):
    """({var: Scan}, [(loop, why not)]) over the top-level statements of fn"""
    scans, near = {}, []
    body = body_of(fn)
    stores = {}
    for n in ast.walk(fn):
        if isinstance(n, ast.Name) and isinstance(n.ctx, ast.Store):
            stores[n.id] = stores.get(n.id, 0) + 1
    for i in range(len(body) - 1):
        a, w = body[i], body[i + 1]
        if not (isinstance(a, (ast.Assign, ast.AnnAssign)) and isinstance(w, ast.While) and not w.orelse):
            continue
        tg = a.targets[0] if isinstance(a, ast.Assign) else a.target
        if not isinstance(tg, ast.Name) or a.value is None:
            continue
        v = tg.id
        t = w.test
        if not (isinstance(t, ast.BoolOp) and isinstance(t.op, ast.And) and len(t.values) == 2):
            continue
        rng, cmp_ = t.values
        if not (isinstance(cmp_, ast.Compare) and len(cmp_.ops) == 1 and isinstance(cmp_.ops[0], ast.NotEq)):
            continue
        el, key = cmp_.left, cmp_.comparators[0]
        if not (isinstance(el, ast.Subscript) and isF(el.value)):
            el, key = key, el
        if not (isinstance(el, ast.Subscript) and isF(el.value) and isinstance(el.slice, ast.Name) and el.slice.id == v):
            continue
        if any(isinstance(x, ast.Name) and x.id == v for x in ast.walk(key)):
            continue
        step = None
        if len(w.body) == 1:
            b = w.body[0]
            if isinstance(b, ast.AugAssign) and isinstance(b.target, ast.Name) and b.target.id == v and const_value(b.value) == 1:
                step = -1 if isinstance(b.op, ast.Sub) else (1 if isinstance(b.op, ast.Add) else None)
            elif isinstance(b, ast.Assign) and unparse(b.targets[0]) == v and unparse(b.value) in (f'{v} - 1', f'{v} + 1'):
                step = -1 if unparse(b.value).endswith('- 1') else 1
        if step is None:
            near.append((w, f'the loop body is not a single step of `{v}` by one'))
            continue
        if stores.get(v, 0) != 2:
            near.append((w, f'`{v}` is assigned elsewhere as well'))
            continue
        init = unparse(a.value)
        rt = unparse(rng)
        lens = [f'len({unparse(el.value)})']
        if step == -1:
            ok_init = init == f'{lens[0]} - 1'
            ok_rng = rt in (f'{v} >= 0', f'{v} > -1', f'0 <= {v}', f'-1 < {v}')
            if ok_init and ok_rng:
                scans[v] = Scan(v, 'down', key, w)
            else:
                near.append((w, f'scan downwards from `{init}` while `{rt}`: ' + ('position 0 is never compared' if rt in (f'{v} > 0', f'0 < {v}', f'{v} >= 1') else
                                                                                 'the start / range test does not cover every position')))
        else:
            ok_init = init == '0'
            ok_rng = rt in (f'{v} < {lens[0]}', f'{lens[0]} > {v}', f'{v} != {lens[0]}', f'{v} <= {lens[0]} - 1')
            if ok_init and ok_rng:
                scans[v] = Scan(v, 'up', key, w)
            else:
                near.append((w, f'scan upwards from `{init}` while `{rt}`: the start / range test does not cover every position'))
    return scans, near


# --------------------------------------------------------------------------- R1.5
EMPTY_FORMS = None


def is_emptiness_test(prog, cname, F, test):
    """+1 if test is true exactly when the list is empty, -1 if true exactly when non-empty, 0 otherwise"""
    t = ctext(prog, cname, test)
    f = f'self.{F}'
    empty = {f'len({f}) == 0', f'not {f}', f'len({f}) < 1', f'not len({f})', f'{f} == []', f'0 == len({f})', f'len({f}) <= 0'}
    nonempty = {f'len({f}) > 0', f'{f}', f'len({f}) != 0', f'len({f})', f'len({f}) >= 1', f'{f} != []', f'not len({f}) == 0'}
    if t in empty:
        return 1
    if t in nonempty:
        return -1
    if isinstance(test, ast.UnaryOp) and isinstance(test.op, ast.Not):
        return -is_emptiness_test(prog, cname, F, test.operand)
    return 0


def guarded_nonempty(prog, cname, F, g: CFG, node):
    for (c, branch) in g.guard_branches(node):
        e = is_emptiness_test(prog, cname, F, c.ast)
        if (e == 1 and branch is False) or (e == -1 and branch is True):
            return True
    return False


def r15_observers(ctx, cname, ci, F, ev_index, isF, writer=None):
    prog = ctx.prog
    ctx.rule('R1.5', f'observers of {cname}: size/is_empty/peek_first/pop_first/contains/remove/clear agree with the stored set')
    f = f'self.{F}'

    def need(m):
        fn = ci.methods.get(m)
        if fn is None:
            raise AnalysisError(f'anchor vanished: {cname}.{m}')
        return fn

    def returns(fn):
        return [n for n in walk_shallow(fn) if isinstance(n, ast.Return)]

    # size
    fn = need('size')
    rs = returns(fn)
    ok = len(rs) >= 1 and all(r.value is not None and ctext(prog, cname, r.value) == f'len({f})' for r in rs)
    ctx.ob('R1.5', f'{cname}.size', ok, sample=f'{cname}.size returns {[short(r.value) for r in rs]}')
    if not ok:
        ctx.finding('R1.5', f'{cname}.size', ci, fn, f'size() does not return len({f})', where=f'{cname}.size')
    # is_empty
    fn = need('is_empty')
    rs = returns(fn)
    ok = len(rs) >= 1 and all(r.value is not None and is_emptiness_test(prog, cname, F, r.value) == 1 for r in rs)
    ctx.ob('R1.5', f'{cname}.is_empty', ok, sample=f'{cname}.is_empty returns {[ctext(prog, cname, r.value) for r in rs if r.value is not None]}')
    if not ok:
        ctx.finding('R1.5', f'{cname}.is_empty', ci, fn, 'is_empty() is not an emptiness test of the backing list', where=f'{cname}.is_empty')
    # an index kept beside the list (dict / set of event ids bound empty in the constructor): interpreted together with the list
    init_ = ci.methods.get('__init__')
    index_fields = []
    if init_ is not None:
        for a_ in walk_shallow(init_):
            if isinstance(a_, (ast.Assign, ast.AnnAssign)) and getattr(a_, 'value', None) is not None:
                v_ = a_.value
                empty_ = (isinstance(v_, ast.Dict) and not v_.keys) or (isinstance(v_, ast.Call) and unparse(v_.func) in ('dict', 'set') and not v_.args)
                for t_ in (a_.targets if isinstance(a_, ast.Assign) else [a_.target]):
                    if empty_ and is_self_attr(t_) and t_.attr != F:
                        index_fields.append(t_.attr)
    e12cfg = {'index_fields': index_fields, 'id_index': (writer.index('id') if writer and 'id' in writer and writer != ('event',) else None),
              'ev_index': ev_index, 'comp_of': lambda e_, evn_: classify_component(prog, e_, evn_)}
    if index_fields and writer is not None:
        from ..seqsearch import check_index_consistency
        ms_ = {m_: ci.methods[m_] for m_ in ('add', 'pop_first', 'peek_first', 'contains', 'remove', 'clear') if m_ in ci.methods}
        ip, ip_why = check_index_consistency(prog, cname, F, (lambda e, evn: (writer == ('event',)) if e is None else (
            isinstance(e, ast.Tuple) and tuple(classify_component(prog, x, evn) for x in e.elts) == writer)), e12cfg['comp_of'], index_fields, ev_index,
            e12cfg['id_index'], ms_)
        if ip is None:
            ctx.ob('R1.5', f'{cname}:index', False, sample=f'{cname} keeps {index_fields} beside the list; not interpreted ({ip_why})')
            ctx.finding('R1.5', f'{cname}:index:unsupported', ci, init_, f'{cname} keeps {index_fields} beside {F} and consults it, but the methods that maintain it are outside '
                        f'the domain of the case interpreter ({ip_why}): that it records exactly the pending events is not shown', where=cname)
        else:
            ctx.examined(len(ms_) * 4)
            ctx.ob('R1.5', f'{cname}:index', not ip, sample=f'{cname}: {index_fields} record an event exactly while it is on the list, after every method and case: {not ip}')
            seen_ = set()
            for (m_, desc, what) in ip:
                if m_ in seen_:
                    continue
                seen_.add(m_)
                ctx.finding('R1.5', f'{cname}.{m_}:index', ci, ci.methods[m_], f'{m_}() when {desc}: {what}', where=f'{cname}.{m_}')
    # peek_first / pop_first: by cases (empty / non-empty) when loop-free, else the syntactic rule
    from ..seqsearch import check_peek_pop
    pp, pp_why = check_peek_pop(prog, cname, F, ev_index, need('peek_first'), need('pop_first'), e12cfg)
    if pp is not None:
        for m in ('peek_first', 'pop_first'):
            ctx.examined()
            ctx.ob('R1.5', f'{cname}.{m}', not pp[m], sample=f'{cname}.{m}: interpreted for an empty and a non-empty list: '
                   + ('None / the event of the smallest entry' if not pp[m] else '; '.join(w for _c, _d, w in pp[m])))
            for (cid, desc, what) in pp[m]:
                ctx.finding('R1.5', f'{cname}.{m}:{"none-branch" if cid == "empty" else "value"}', ci, need(m), f'{m}() when {desc}: {what}', where=f'{cname}.{m}')
    sub = f'[{ev_index}]' if ev_index is not None else ''
    want = {'peek_first': {f'{f}[0]{sub}'}, 'pop_first': {f'heapq.heappop({f}){sub}'}}
    for m in (('peek_first', 'pop_first') if pp is None else ()):
        fn = need(m)
        g = CFG(fn)
        rs = returns(fn)
        good = bool(rs)
        seen_value = False
        for r in rs:
            t = ctext(prog, cname, r.value) if r.value is not None else 'None'
            if t == 'None':
                # must be on the empty branch
                node = g.node_for(r)
                okb = any((is_emptiness_test(prog, cname, F, c.ast) == 1 and br) or (is_emptiness_test(prog, cname, F, c.ast) == -1 and not br)
                          for (c, br) in g.guard_branches(node))
                if not okb:
                    good = False
                    ctx.finding('R1.5', f'{cname}.{m}:none-branch', ci, r, f'{m}() returns None on a path not guarded by an emptiness test',
                                where=f'{cname}.{m}')
            elif t in want[m]:
                seen_value = True
                node = g.node_for(r)
                if not guarded_nonempty(prog, cname, F, g, node):
                    good = False
                    ctx.finding('R1.5', f'{cname}.{m}:unguarded', ci, r, f'{m}() reads the heap top without a dominating non-emptiness test',
                                where=f'{cname}.{m}')
            else:
                good = False
                ctx.finding('R1.5', f'{cname}.{m}:value', ci, r,
                            f'{m}() returns `{t}`; expected `{sorted(want[m])[0]}` (the event component of the heap minimum)',
                            where=f'{cname}.{m}')
        if not seen_value and good:
            good = False
            ctx.finding('R1.5', f'{cname}.{m}:value', ci, fn, f'{m}() never returns the heap minimum', where=f'{cname}.{m}')
        ctx.ob('R1.5', f'{cname}.{m}', good, sample=f'{cname}.{m} returns {[short(r.value) if r.value is not None else "None" for r in rs]}')
    # contains / remove by cases of the entry state (E12): empty list / event absent / event first / event at a later position
    from ..seqsearch import check_observers

    def is_key(e, evn):
        if e is None:
            return writer == ('event',)
        return isinstance(e, ast.Tuple) and writer is not None and tuple(classify_component(prog, x, evn) for x in e.elts) == writer
    probs, why = check_observers(prog, cname, F, is_key, need('contains'), need('remove'), e12cfg) if writer is not None else (None, 'no key')
    if probs is not None:
        for kind in ('contains', 'remove'):
            ctx.examined()
            ctx.ob('R1.5', f'{cname}.{kind}', not probs[kind], sample=f'{cname}.{kind}: interpreted for the 4 cases of the entry state (empty / absent / first / later): '
                   + ('answers and effect as specified' if not probs[kind] else '; '.join(f'{c}: {w}' for c, _d, w in probs[kind])))
            for (cid, desc, what) in probs[kind]:
                ctx.finding('R1.5', f'{cname}.{kind}:case-{cid}', ci, need(kind), f'{kind}() when {desc}: {what}', where=f'{cname}.{kind}')
    else:
        ctx.note(f'R1.5: {cname}.contains / remove are outside the domain of the case interpreter ({why}); syntactic rule applied')
        _r15_contains_remove_syntactic(ctx, cname, ci, F, isF, need, returns)
    # clear
    fn = need('clear')
    clears = [n for n in walk_shallow(fn) if (isinstance(n, ast.Call) and isinstance(n.func, ast.Attribute) and isF(n.func.value) and n.func.attr == 'clear')
              or (isinstance(n, ast.Assign) and any(isF(t) for t in n.targets) and _is_empty_list(n.value))
              or (isinstance(n, ast.Delete) and any(isinstance(t, ast.Subscript) and isF(t.value) and unparse(t.slice) == ':' for t in n.targets))]
    _r15_clear(ctx, cname, ci, fn, clears)


def _r15_contains_remove_syntactic(ctx, cname, ci, F, isF, need, returns):
    prog = ctx.prog
    # contains: every return is False under emptiness, or count(key) > 0 / key in F
    fn = need('contains')
    g = CFG(fn)
    good = True
    rs = returns(fn)
    member_seen = False
    for r in rs:
        v = r.value
        if v is None:
            good = False
            continue
        if isinstance(v, ast.Constant) and v.value is False:
            node = g.node_for(r)
            okb = any((is_emptiness_test(prog, cname, F, c.ast) == 1 and br) or (is_emptiness_test(prog, cname, F, c.ast) == -1 and not br)
                      for (c, br) in g.guard_branches(node))
            good = good and okb
            continue
        if isinstance(v, ast.BoolOp) and isinstance(v.op, ast.And) and len(v.values) == 2 and is_emptiness_test(prog, cname, F, v.values[0]) == -1:
            v = v.values[1]                  # `not empty and <membership>`: False when empty, the membership test otherwise
        if isinstance(v, ast.Compare) and len(v.ops) == 1:
            if isinstance(v.ops[0], ast.In) and isF(v.comparators[0]):
                member_seen = True
                continue
            l, r_ = v.left, v.comparators[0]
            if isinstance(l, ast.Call) and isinstance(l.func, ast.Attribute) and isF(l.func.value) and l.func.attr == 'count':
                c = const_value(r_)
                if (isinstance(v.ops[0], ast.Gt) and c == 0) or (isinstance(v.ops[0], ast.GtE) and c == 1) or (isinstance(v.ops[0], ast.NotEq) and c == 0):
                    member_seen = True
                    continue
        good = False
    good = good and member_seen
    if not good:
        # hand-written linear scan over the backing list (index variable, one step per round, exact range test first)
        scans, near = linear_scans(fn, isF)
        good2 = bool(rs) and bool(scans)
        for r in rs:
            v = r.value
            if isinstance(v, ast.Constant) and v.value is False:
                node = g.node_for(r)
                if not any((is_emptiness_test(prog, cname, F, c.ast) == 1 and br) or (is_emptiness_test(prog, cname, F, c.ast) == -1 and not br)
                           for (c, br) in g.guard_branches(node)):
                    good2 = False
                continue
            if not (isinstance(v, ast.Compare) and len(v.ops) == 1 and isinstance(v.left, ast.Name) and v.left.id in scans
                    and scans[v.left.id].found_test(v.ops[0], v.comparators[0], isF)):
                good2 = False
        if good2:
            good = True
        elif near:
            ctx.ob('R1.5', f'{cname}.contains', False, sample=near[0][1])
            ctx.finding('R1.5', f'{cname}.contains:scan', ci, near[0][0], f'contains() searches the backing list with a loop that does not visit every position: {near[0][1]}',
                        where=f'{cname}.contains')
            good = None
    if good is None:
        pass
    else:
        ctx.ob('R1.5', f'{cname}.contains', good, sample=f'{cname}.contains returns {[short(r.value) for r in rs if r.value is not None]}')
    if good is False:
        ctx.finding('R1.5', f'{cname}.contains', ci, fn, 'contains() is not a membership test of the stored key', where=f'{cname}.contains')
    # remove: True exactly on the paths that removed
    fn = need('remove')
    g = CFG(fn)
    removers = []
    for node in g.stmt_nodes():
        if node.ast is None:
            continue
        for n in walk_shallow(node.ast):
            if isinstance(n, ast.Call) and isinstance(n.func, ast.Attribute) and isF(n.func.value) and n.func.attr in ('remove', 'pop') \
                    and (n.func.attr == 'remove' or True):
                removers.append(node)
            elif isinstance(n, ast.Subscript) and isF(n.value) and isinstance(n.ctx, ast.Del):
                removers.append(node)
    good = bool(removers)
    # removal by position: the position is that of the key (a complete scan or list.index), tested for `found` before use
    scans_r, near_r = linear_scans(fn, isF)
    for node in removers:
        for n in walk_shallow(node.ast):
            idx = None
            if isinstance(n, ast.Subscript) and isF(n.value) and isinstance(n.ctx, ast.Del):
                idx = n.slice
            elif isinstance(n, ast.Call) and isinstance(n.func, ast.Attribute) and isF(n.func.value) and n.func.attr == 'pop' and n.args:
                idx = n.args[0]
            if idx is None:
                continue
            okp = False
            if isinstance(idx, ast.Name) and idx.id in scans_r:
                sc_ = scans_r[idx.id]
                for (cnd, br) in g.guard_branches(node):
                    t = cnd.ast
                    neg = False
                    while isinstance(t, ast.UnaryOp) and isinstance(t.op, ast.Not):
                        t, neg = t.operand, not neg
                    if isinstance(t, ast.Compare) and len(t.ops) == 1 and isinstance(t.left, ast.Name) and t.left.id == idx.id:
                        INV = {ast.Lt: ast.GtE, ast.GtE: ast.Lt, ast.Gt: ast.LtE, ast.LtE: ast.Gt, ast.Eq: ast.NotEq, ast.NotEq: ast.Eq}
                        op = t.ops[0] if (br != neg) else INV.get(type(t.ops[0]), type(None))()
                        if sc_.found_test(op, t.comparators[0], isF):
                            okp = True
            elif isinstance(idx, ast.Call) and isinstance(idx.func, ast.Attribute) and idx.func.attr == 'index' and isF(idx.func.value):
                okp = True
            elif isinstance(idx, ast.Name) and [a for a in walk_shallow(fn) if isinstance(a, (ast.Assign, ast.AnnAssign)) and getattr(a, 'value', None) is not None
                                                  and any(isinstance(t, ast.Name) and t.id == idx.id for t in (a.targets if isinstance(a, ast.Assign) else [a.target]))
                                                  and isinstance(a.value, ast.Call) and isinstance(a.value.func, ast.Attribute) and a.value.func.attr == 'index'
                                                  and isF(a.value.func.value)] \
                    and sum(1 for y in walk_shallow(fn) if isinstance(y, ast.Name) and y.id == idx.id and isinstance(y.ctx, ast.Store)) == 1:
                okp = True              # i = F.index(key): the position of the key (ValueError, i.e. no deletion, when it is absent)
            elif isinstance(idx, ast.Name):
                # `for i, x in enumerate(F): if x == key: del F[i]; break` -- the position of the element just compared equal
                for lp in walk_shallow(fn):
                    if isinstance(lp, ast.For) and isinstance(lp.iter, ast.Call) and unparse(lp.iter.func) == 'enumerate' and lp.iter.args and isF(lp.iter.args[0]) \
                            and isinstance(lp.target, ast.Tuple) and len(lp.target.elts) == 2 and unparse(lp.target.elts[0]) == idx.id \
                            and any(y is n for b_ in lp.body for y in ast.walk(b_)):
                        el = unparse(lp.target.elts[1])
                        for (cnd, br) in g.guard_branches(node):
                            t = cnd.ast
                            if isinstance(t, ast.Compare) and len(t.ops) == 1 and isinstance(t.ops[0], ast.Eq) and br \
                                    and el in (unparse(t.left), unparse(t.comparators[0])):
                                # nothing of the loop may run after the deletion (the positions shift)
                                succ_ok = all(isinstance(s_.ast, (ast.Break, ast.Return)) for (s_, lab) in node.succ if lab != 'exc')
                                okp = succ_ok
            ctx.ob('R1.5', f'{cname}.remove:position', okp, sample=f'{cname}.remove deletes position `{short(idx)}`')
            if not okp:
                good = False
                why = near_r[0][1] if near_r else 'it is not the result of a complete search for the key, tested for success'
                ctx.finding('R1.5', f'{cname}.remove:position', ci, n, f'remove() deletes position `{short(idx)}` which is not proved to be the position of the event: {why}',
                            where=f'{cname}.remove')
    for r in returns(fn):
        node = g.node_for(r)
        v = const_value(r.value) if r.value is not None else None
        passes_all = not g.reaches(g.entry, node, avoid=removers)
        # the exceptional exit of the removing call itself (ValueError of list.remove, IndexError of pop/del) means nothing was removed
        passes_some = any(s_ is node or g.reaches(s_, node) for rm in removers for (s_, lab) in rm.succ if lab != 'exc')
        if v is True and not passes_all:
            good = False
            ctx.finding('R1.5', f'{cname}.remove:true-without-removal', ci, r, 'remove() can return True without having removed', where=f'{cname}.remove')
        elif v is False and passes_some:
            good = False
            ctx.finding('R1.5', f'{cname}.remove:false-after-removal', ci, r, 'remove() can return False after having removed', where=f'{cname}.remove')
        elif v not in (True, False):
            t = short(r.value) if r.value is not None else 'None'
            good = False
            ctx.finding('R1.5', f'{cname}.remove:return', ci, r, f'remove() returns `{t}`, not a constant truth value tied to the removal', where=f'{cname}.remove')
    ctx.ob('R1.5', f'{cname}.remove', good, sample=f'{cname}.remove: True iff removed on every path: {good}')
    if not removers:
        ctx.finding('R1.5', f'{cname}.remove:no-removal', ci, fn, 'remove() never removes from the backing list', where=f'{cname}.remove')


def _r15_clear(ctx, cname, ci, fn, clears):
    g = CFG(fn)
    ok = bool(clears) and not g.reaches(g.entry, g.exit, avoid=[g.node_for(c) if isinstance(c, ast.stmt) else _stmt_node(g, c) for c in clears])
    ctx.ob('R1.5', f'{cname}.clear', ok, sample=f'{cname}.clear empties the list on every path: {ok}')
    if not ok:
        ctx.finding('R1.5', f'{cname}.clear', ci, fn, 'clear() does not empty the backing list on every path', where=f'{cname}.clear')


def _stmt_node(g, expr):
    for n in g.stmt_nodes():
        if n.ast is not None and any(x is expr for x in ast.walk(n.ast)):
            return n
    raise AnalysisError('CFG: expression not found')


# --------------------------------------------------------------------------- R1.3 / R1.4
def r13_key_immutable(ctx):
    prog = ctx.prog
    ctx.rule('R1.3', 'key fields of SimEvent (time, priority, id) are written only by SimEvent.__init__; no setters')
    fields = {f: r for f, r in simevent_fields(prog).items() if f.startswith('_')}
    ci = prog.cls('SimEvent')
    for role in ('time', 'priority', 'id'):
        ok = role not in ci.setters
        ctx.ob('R1.3', f'SimEvent.{role}:no-setter', ok)
        if not ok:
            ctx.finding('R1.3', f'SimEvent.{role}:setter', ci, ci.setters[role], f'property {role} has a setter: a queued event can change its heap key',
                        where=f'SimEvent.{role}')
    nw = 0
    for oc, fn, mod in prog.functions():
        for n in walk_shallow(fn):
            if isinstance(n, ast.Attribute) and isinstance(n.ctx, (ast.Store, ast.Del)) and n.attr in fields:
                ctx.examined()
                legit = oc is not None and oc.name == 'SimEvent' and fn.name == '__init__' and is_self_attr(n)
                # other classes may have their own `_id`/`_priority` fields on self: only writes on non-self receivers
                # or inside SimEvent count
                if oc is not None and oc.name != 'SimEvent' and is_self_attr(n) and not prog.is_subclass(oc.name, 'SimEvent'):
                    continue
                nw += 1
                ctx.ob('R1.3', f'{oc.name if oc else mod.name}.{fn.name}:{n.attr}', legit,
                       sample=f'{oc.name if oc else mod.name}.{fn.name} writes {unparse(n)}')
                if not legit:
                    ctx.finding('R1.3', f'{oc.name if oc else mod.name}.{fn.name}:{n.attr}', oc, n,
                                f'key field {n.attr} ({fields[n.attr]}) of an event is written outside SimEvent.__init__', module=mod,
                                where=f'{oc.name if oc else mod.name}.{fn.name}')
    ctx.floor('R1.3', 'writers of the key fields', nw, 3)
    # the key an event is ordered by is the time / priority it was created with: the constructor stores its parameters unchanged
    init = prog.method('SimEvent', '__init__', inherited=False)
    params = {a.arg for a in init.args.args[1:]}
    for f, role in sorted(fields.items()):
        if role not in ('time', 'priority'):
            continue
        stores = [n for n in walk_shallow(init) if isinstance(n, (ast.Assign, ast.AnnAssign))
                  and any(is_self_attr(t, f) for t in (n.targets if isinstance(n, ast.Assign) else [n.target]))]
        ok = len(stores) == 1 and isinstance(stores[0].value, ast.Name) and stores[0].value.id in params and stores[0].value.id == role
        ctx.ob('R1.3', f'SimEvent.__init__:{f}:stored-unchanged', ok, sample=f'SimEvent.__init__: {[short(x) for x in stores]}')
        if not ok:
            ctx.finding('R1.3', f'SimEvent.__init__:{f}:stored-value', ci, stores[0] if stores else init,
                        f'the {role} of an event is not stored as the constructor argument `{role}` itself ({[short(x.value) for x in stores]}): '
                        f'a valid {role} (e.g. 0) is replaced, so events are ordered by a different key than the one requested', where='SimEvent.__init__')


def _monotone_counter_store(fn, target, counter_attr):
    """the store `<counter> = v` is the only statement of an `if v > <counter>:` / `if <counter> < v:` (no else): it can only raise the counter"""
    from ..core import mangle as _m
    names = (counter_attr, _m('SimEvent', counter_attr))
    for st in ast.walk(fn):
        if isinstance(st, ast.If) and not st.orelse and len(st.body) == 1 and isinstance(st.body[0], ast.Assign) and len(st.body[0].targets) == 1 \
                and st.body[0].targets[0] is target and isinstance(st.test, ast.Compare) and len(st.test.ops) == 1:
            v = unparse(st.body[0].value)
            l, r = st.test.left, st.test.comparators[0]
            is_counter = lambda e: isinstance(e, ast.Attribute) and e.attr in names
            if isinstance(st.test.ops[0], ast.Gt) and unparse(l) == v and is_counter(r):
                return True
            if isinstance(st.test.ops[0], ast.Lt) and unparse(r) == v and is_counter(l):
                return True
    return False


def r14_counter(ctx):
    prog = ctx.prog
    ctx.rule('R1.4', 'SimEvent id comes from a class counter incremented exactly once per event; the counter has no other writer')
    ci = prog.cls('SimEvent')
    init = prog.method('SimEvent', '__init__', inherited=False)
    idf = [f for f, r in simevent_fields(prog).items() if r == 'id' and f.startswith('_')][0]
    assigns = [n for n in walk_shallow(init) if isinstance(n, (ast.Assign, ast.AnnAssign))
               and any(is_self_attr(t, idf) for t in (n.targets if isinstance(n, ast.Assign) else [n.target]))]
    ok = len(assigns) == 1 and isinstance(assigns[0].value, ast.Call)
    counter_fn = None
    if ok:
        f = assigns[0].value.func
        if isinstance(f, ast.Attribute) and unparse(f.value) in ('SimEvent', 'self', 'cls', 'type(self)', 'self.__class__'):
            counter_fn = ci.methods.get(f.attr)
    ok = ok and counter_fn is not None
    ctx.ob('R1.4', 'SimEvent.__init__:id-from-counter', ok, sample=f'SimEvent.__init__: {short(assigns[0]) if assigns else "no id assignment"}')
    if not ok:
        ctx.finding('R1.4', 'SimEvent.__init__:id-source', ci, assigns[0] if assigns else init,
                    'event id is not assigned exactly once from the class counter function', where='SimEvent.__init__')
        return
    b = body_of(counter_fn)
    counter_attr = None
    shape = False
    if len(b) == 2 and isinstance(b[0], ast.AugAssign) and isinstance(b[0].op, ast.Add) and const_value(b[0].value) == 1 \
            and isinstance(b[0].target, ast.Attribute) and isinstance(b[1], ast.Return) and b[1].value is not None \
            and unparse(b[1].value) == unparse(b[0].target):
        counter_attr = b[0].target.attr
        shape = True
    elif len(b) == 1 and isinstance(b[0], ast.Return) and isinstance(b[0].value, ast.Call) and unparse(b[0].value.func) == 'next':
        shape = True                                    # next(itertools.count()) idiom
        a0 = b[0].value.args[0] if b[0].value.args else None
        counter_attr = a0.attr if isinstance(a0, ast.Attribute) else None
    # one counter for all events: a classmethod writing `cls.<counter>` must be called on SimEvent itself -- through an instance
    # (or cls / type(self)) the augmented assignment creates a separate counter on every subclass of SimEvent
    from ..core import decorators
    recv = unparse(assigns[0].value.func.value)
    tgt_base = unparse(b[0].target.value) if b and isinstance(b[0], ast.AugAssign) and isinstance(b[0].target, ast.Attribute) else None
    if tgt_base is None and len(b) == 1 and isinstance(b[0], ast.Return) and isinstance(b[0].value, ast.Call) and b[0].value.args and isinstance(b[0].value.args[0], ast.Attribute):
        tgt_base = unparse(b[0].value.args[0].value)
    is_cm = 'classmethod' in decorators(counter_fn)
    shared = True
    if tgt_base == 'cls' and is_cm and recv != 'SimEvent':
        shared = False
    if tgt_base in ('self', 'type(self)', 'self.__class__'):
        shared = False
    ctx.ob('R1.4', 'SimEvent.counter:one-counter', shared, sample=f'{counter_fn.name} writes {tgt_base}.<counter>, called as {recv}.{counter_fn.name}(): one counter for all event classes: {shared}')
    if not shared:
        ctx.finding('R1.4', 'SimEvent.counter:per-subclass', ci, assigns[0],
                    f'the id counter is incremented through `{tgt_base}` with `{recv}.{counter_fn.name}()`: for an instance of a SimEvent subclass the augmented assignment '
                    'creates a separate counter on that subclass, so ids repeat across event classes and equal-time equal-priority events are no longer ordered by creation '
                    '(two distinct events can even compare equal)', where='SimEvent.__init__')
    ctx.ob('R1.4', 'SimEvent.counter:shape', shape, sample=f'{counter_fn.name}: {[short(s) for s in b]}')
    if not shape:
        ctx.finding('R1.4', 'SimEvent.counter:shape', ci, counter_fn,
                    'id counter function is not `counter += 1; return counter`: ids may repeat or decrease', where=f'SimEvent.{counter_fn.name}')
    if counter_attr:
        writers = []
        for oc, fn, mod in prog.functions():
            for n in walk_shallow(fn):
                if isinstance(n, ast.Attribute) and isinstance(n.ctx, (ast.Store, ast.Del)) and n.attr in (counter_attr, mangle('SimEvent', counter_attr)):
                    if not (oc is ci and fn is counter_fn):
                        if oc is ci and _monotone_counter_store(fn, n, counter_attr):
                            continue            # `if v > counter: counter = v`: the counter only moves forward (restoring ids made elsewhere)
                        writers.append((oc, fn, n, mod))
        ctx.ob('R1.4', 'SimEvent.counter:single-writer', not writers)
        for (oc, fn, n, mod) in writers:
            ctx.finding('R1.4', f'{oc.name if oc else mod.name}.{fn.name}:counter-write', oc, n, 'event id counter written outside the counter function',
                        module=mod, where=f'{oc.name if oc else mod.name}.{fn.name}')
    # number of calls of the counter function in the package: exactly the one in __init__
    calls = 0
    for oc, fn, mod in prog.functions():
        for n in walk_shallow(fn):
            if isinstance(n, ast.Call) and isinstance(n.func, ast.Attribute) and n.func.attr == counter_fn.name:
                calls += 1
    ctx.ob('R1.4', 'SimEvent.counter:one-call-site', calls == 1, sample=f'{counter_fn.name} called at {calls} site(s)')
    if calls != 1:
        ctx.finding('R1.4', 'SimEvent.counter:call-sites', ci, counter_fn, f'id counter function is called at {calls} sites (expected exactly 1 per event construction)',
                    where=f'SimEvent.{counter_fn.name}')


# --------------------------------------------------------------------------- R1.6
class _SubstCmp(ast.NodeTransformer):
    def __init__(self, value):
        self.value = value

    def visit_Call(self, node):
        if isinstance(node.func, ast.Attribute) and node.func.attr == '__cmp__':
            return ast.Constant(self.value)
        return self.generic_visit(node)


def r16_cmp(ctx):
    prog = ctx.prog
    ctx.rule('R1.6', 'SimEvent.__cmp__ and __eq__/__ne__/__lt__/__le__/__gt__/__ge__ = lexicographic (time asc, priority desc, id asc) over all 27 orderings')
    ci = prog.cls('SimEvent')
    fields = simevent_fields(prog)
    by_role = {r: f for f, r in fields.items() if f.startswith('_')}
    cmpfn = ci.methods.get('__cmp__')
    ops = {'__eq__': lambda c: c == 0, '__ne__': lambda c: c != 0, '__lt__': lambda c: c < 0,
           '__le__': lambda c: c <= 0, '__gt__': lambda c: c > 0, '__ge__': lambda c: c >= 0}
    ORDV = {'lt': -1, 'eq': 0, 'gt': 1}
    other = 'other'
    if cmpfn is not None and len(cmpfn.args.args) > 1:
        other = cmpfn.args.args[1].arg
    mism_cmp = []
    mism_ops = {o: [] for o in ops}
    n = 0
    for rt, rp, ri in itertools.product(('lt', 'eq', 'gt'), repeat=3):
        n += 1
        want = ORDV[rt] or (-ORDV[rp]) or ORDV[ri]

        def env_for(oname):
            return {('ord', f'self.{by_role["time"]}', f'{oname}.{by_role["time"]}'): rt,
                    ('ord', f'self.{by_role["priority"]}', f'{oname}.{by_role["priority"]}'): rp,
                    ('ord', f'self.{by_role["id"]}', f'{oname}.{by_role["id"]}'): ri}
        if cmpfn is not None:
            ge = GuardEval(prog, 'SimEvent', env_for(other), receivers=('self', other))
            got = eval_decision_list(body_of(cmpfn), ge)
            ctx.examined()
            sign = (got > 0) - (got < 0) if isinstance(got, (int, float)) and not isinstance(got, bool) else got
            if sign != want:
                mism_cmp.append(((rt, rp, ri), got, want))
        for o, spec in ops.items():
            fn = ci.methods.get(o)
            if fn is None:
                raise AnalysisError(f'anchor vanished: SimEvent.{o}')
            oname = fn.args.args[1].arg if len(fn.args.args) > 1 else 'other'
            ge = GuardEval(prog, 'SimEvent', env_for(oname), receivers=('self', oname))
            body = [_SubstCmp(want).visit(__import__('copy').deepcopy(s)) for s in body_of(fn)]
            # operators written through __cmp__ are evaluated against the *specified* sign; __cmp__ itself is checked above
            got = eval_decision_list(body, ge)
            ctx.examined()
            if got is not spec(want):
                mism_ops[o].append(((rt, rp, ri), got, spec(want)))
    ctx.exhaustive['R1.6 orderings of (time, priority, id)'] = (n == 27)
    if cmpfn is not None:
        ok = not mism_cmp
        ctx.ob('R1.6', 'SimEvent.__cmp__', ok, sample=f'__cmp__ evaluated on 27 orderings, mismatches: {len(mism_cmp)}')
        if not ok:
            case, got, want = mism_cmp[0]
            ctx.finding('R1.6', 'SimEvent.__cmp__', ci, cmpfn,
                        f'__cmp__ disagrees with (time asc, priority desc, id asc) in {len(mism_cmp)}/27 orderings, e.g. '
                        f'time {case[0]}, priority {case[1]}, id {case[2]}: returns {got}, expected sign {want}',
                        where='SimEvent.__cmp__', extra={'mismatches': [str(m) for m in mism_cmp]})
    for o in ops:
        ok = not mism_ops[o]
        ctx.ob('R1.6', f'SimEvent.{o}', ok, sample=f'{o}: {short(body_of(ci.methods[o])[-1])} -- mismatches {len(mism_ops[o])}/27')
        if not ok:
            case, got, want = mism_ops[o][0]
            ctx.finding('R1.6', f'SimEvent.{o}', ci, ci.methods[o],
                        f'{o} disagrees with the strict total order in {len(mism_ops[o])}/27 orderings, e.g. '
                        f'time {case[0]}, priority {case[1]}, id {case[2]}: gives {got}, expected {want}', where=f'SimEvent.{o}')
