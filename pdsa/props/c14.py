"""C14 -- draws are a pure function of parameters and stream output, within the support (DESIGN §3-C14)."""
from __future__ import annotations

import ast

from .. import itv as I
from .. import numrules as N
from ..cfg import CFG
from ..core import AnalysisError, NOCONST, body_of, const_value, is_self_attr, is_super_call, short, unparse, walk_shallow
from ..itv import Itv
from ..numeric import Analyser, Program
from ..simrules import _node_containing, _nodes_containing

EXPLANATION = (
    "Numeric abstract interpretation of the constructor and draw() of every concrete distribution, with constructor "
    "parameters refined by the constructor's own guards, every next_float() an independent value in [0,1), "
    "next_int(lo,hi) in [lo,hi] and inner distributions summarised by their analysed return range: every implicit "
    "arithmetic sink (log, division, pow, sqrt, floor, explicit range refusals of erf_inv/beta) must be proved "
    "unreachable; return ranges give the sign/clamp part of 'within the support'. Structural rules: uniforms come only "
    "from self._stream (or the positive-uniform helper) or from inner distributions that _set_stream rebuilds with the "
    "new stream; all inner distributions are rebuilt there; fields read by _set_stream are initialised before the base "
    "constructor; cached draw state is invalidated on re-pointing; no class-level or module-level mutable state; the "
    "41 quantity wrappers construct the quantity they are named after. Exact upper bounds for uniform / triangular / "
    "beta, termination of rejection loops and overflow are not decided.")

BASES = ('Distribution', 'DistContinuous', 'DistDiscrete')

EXPR_AXIOMS = {
    ('DistNormalTrunc', 'draw', 'self._cum_prob_lo + self._cum_prob_diff * self._stream.next_float()'): (
        Itv(0.0, 1.0, False, False),
        'cum_prob_diff = cdf(hi) - cum_prob_lo with 0 <= cum_prob_lo <= cdf(hi) <= 1, so cum_prob_lo + cum_prob_diff*u is a convex combination of two '
        'cdf values for u in [0,1)'),
}

# sign / clamp part of the documented supports: class -> (description, predicate over the joined return interval)
SUPPORT = {
    'DistExponential': ('> 0 or >= 0', lambda iv: iv.ge0()),
    'DistGamma': ('>= 0', lambda iv: iv.ge0()),
    'DistErlang': ('>= 0', lambda iv: iv.ge0()),
    'DistWeibull': ('>= 0', lambda iv: iv.ge0()),
    'DistPearson5': ('> 0', lambda iv: iv.gt0()),
    'DistPearson6': ('>= 0', lambda iv: iv.ge0()),
    'DistLogNormal': ('> 0', lambda iv: iv.gt0()),
    'DistBeta': ('in [0, 1]', lambda iv: iv.ge0() and iv.hi <= 1.0),
    'DistBernoulli': ('in {0, 1}', lambda iv: iv.isint and iv.lo >= 0 and iv.hi <= 1),
    'DistBinomial': ('integer >= 0', lambda iv: iv.isint and iv.ge0()),
    'DistGeometric': ('integer >= 0', lambda iv: iv.isint and iv.ge0()),
    'DistNegBinomial': ('integer >= 0', lambda iv: iv.isint and iv.ge0()),
    'DistPoisson': ('integer >= 0', lambda iv: iv.isint and iv.ge0()),
}


# counting distributions whose smallest support value has positive probability for every admitted parameter
ATTAINED_MIN = {'DistPoisson': 0, 'DistBinomial': 0, 'DistGeometric': 0, 'DistNegBinomial': 0, 'DistBernoulli': 0}


def concrete_dists(prog):
    return [c for c in prog.subclasses('Distribution') if c not in BASES and prog.classes[c].module.name == 'distributions']


def run(ctx):
    prog = ctx.prog
    ctx.uses('distributions', 'streams', 'utils', 'units')
    prog.cls('Distribution')
    dists = concrete_dists(prog)
    ctx.floor('R14', 'concrete distributions', len(dists), 19)
    ctx.assume('constructor parameters are finite numbers (NaN / inf parameters are outside the documented domains); real-number semantics without overflow or rounding')
    ctx.assume('StreamInterface contract: next_float() in [0, 1); next_int(lo, hi) in [lo, hi] (C12 decides the generator wiring, not these ranges)')
    ctx.trust('math.log/sqrt/pow/floor/lgamma/gamma/factorial/comb raise exactly outside their documented domains')
    r141(ctx, dists)
    r142(ctx, dists)
    r143(ctx, dists)
    r144(ctx)
    r146(ctx)
    r147_uniform_bounds(ctx)
    r1410_no_self_text_during_construction(ctx)
    # "drawing depends only on the distribution's parameters and its own stream": the stream's generator is its own, also for a stream that
    # was copied together with its distribution (shared rule with C12)
    from . import c12
    # ... and "equal parameters on equally seeded streams": the seed a stream is given is the seed it runs on (seed wiring of C12)
    for sc_ in ctx.prog.subclasses('StreamInterface'):
        c12.check_stream(ctx, sc_)
    from ..statrules import memo_soundness
    memo_soundness(ctx, 'R14.9', ['distributions', 'utils'])
    from ..statrules import shared_class_state
    shared_class_state(ctx, 'R14.8', sorted(c for c, ci in ctx.prog.classes.items() if ci.module.name == 'distributions'),
                       'what one distribution instance caches (a spare gaussian, a helper distribution) is consumed by every other instance: draws no longer depend '
                       'only on the instance\'s own parameters and stream')


def r141(ctx, dists):
    ctx.rule('R14.1', 'constructor and draw() of every distribution are total for every admitted parameter set and every uniform in [0,1) (numeric abstract interpretation)')
    an, ranges = N.run_totality(ctx, 'R14.1', {'distributions', 'utils', 'streams'}, [(c, ['draw']) for c in dists], ctors=dists, depth=8,
                                what='construction or draw', expr_axioms=EXPR_AXIOMS, record_raises=True)
    ctx.floor('R14.1', 'arithmetic sinks analysed', ctx.extra['numeric']['R14.1']['sinks'], 45)
    # explicit raises inside draw(): declared unreachable by the authors, not decided here
    declared = []
    for c in dists:
        dc, fn = ctx.prog.resolve(c, 'draw')
        for n in walk_shallow(fn):
            if isinstance(n, ast.Raise):
                declared.append(f'{dc.name}.draw:{short(n, 60)}')
    if declared:
        ctx.note('explicit raise statements inside draw() (tolerance checks declared unreachable by the authors; not decided): ' + '; '.join(sorted(set(declared))))
    ctx.rule('R14.5', 'sign / clamp part of "within the support": analysed return range of draw()')
    for c in dists:
        iv = ranges.get((c, 'draw'))
        if c in SUPPORT:
            desc, pred = SUPPORT[c]
            ok = iv is not None and not iv.nan and pred(iv)
            ctx.ob('R14.5', c, ok, sample=f'{c}.draw() in {iv} (support: {desc})')
            if not ok:
                dc, fn = ctx.prog.resolve(c, 'draw')
                ctx.finding('R14.5', f'{c}.draw:range', dc, fn, f'draw() of {c} is only known to lie in {iv}; the documented support requires {desc}', where=f'{dc.name}.draw')
            # the other half, for the counting distributions: the smallest value of the support carries probability mass (probability(0) > 0 for
            # every admitted parameter), so it must be a possible result.  The analysed range over-approximates what draw() can return: a lower
            # end above that value proves it is never drawn
            if ok and c in ATTAINED_MIN and iv is not None and not iv.empty:
                lo_ok = iv.lo <= ATTAINED_MIN[c]
                ctx.ob('R14.5', f'{c}:minimum', lo_ok, sample=f'{c}.draw() in {iv}: the support minimum {ATTAINED_MIN[c]} is not excluded: {lo_ok}')
                if not lo_ok:
                    dc, fn = ctx.prog.resolve(c, 'draw')
                    ctx.finding('R14.5', f'{c}.draw:minimum-never-drawn', dc, fn,
                                f'draw() of {c} lies in {iv}: the value {ATTAINED_MIN[c]} is never returned although probability({ATTAINED_MIN[c]}) is positive for every '
                                f'admitted parameter -- its whole mass goes to the neighbouring value (a loop that counts before it tests)', where=f'{dc.name}.draw')
    # order-fact based clamps: NormalTrunc in [lo, hi]; DiscreteUniform in [lo, hi]; Uniform >= lo
    prog = Program(ctx.prog, {'distributions', 'utils', 'streams'})
    for (c, lo_f, hi_f, need_hi) in (('DistNormalTrunc', '_lo', '_hi', True), ('DistDiscreteUniform', '_lo', '_hi', True), ('DistUniform', '_lo', '_hi', False),
                                     ('DistTriangular', '_lo', '_hi', False)):
        if c not in prog.classes:
            raise AnalysisError(f'anchor vanished: {c}')
        a2 = Analyser(prog, max_depth=8)
        a2.expr_axioms = {k: v[0] for k, v in EXPR_AXIOMS.items()}
        res = a2.analyse_entry_states(c, 'draw')
        bad = []
        for (rs, ra) in res:
            lo_a, hi_a = rs.fld.get(lo_f), rs.fld.get(hi_f)
            if lo_a is None or hi_a is None:
                bad.append('bounds unknown')
                continue
            pl = rs.rel.possible(ra, lo_a)
            ph = rs.rel.possible(ra, hi_a)
            if not pl <= {'>', '='}:
                bad.append(f'may be below {lo_f}')
            if need_hi and not ph <= {'<', '='}:
                bad.append(f'may exceed {hi_f}')
            if rs.iv(ra).nan:
                bad.append('may be NaN')
        ok = bool(res) and not bad
        what = f'[{lo_f}, {hi_f}]' if need_hi else f'>= {lo_f} (upper bound not decided)'
        if c == 'DistTriangular' and not ok:
            ctx.note(f'R14.5: {c}.draw lower bound not established by order facts ({sorted(set(bad))}); not claimed')
            continue
        ctx.ob('R14.5', f'{c}:clamp', ok, sample=f'{c}.draw(): {len(res)} return states, all within {what}: {ok}')
        if not ok:
            dc, fn = ctx.prog.resolve(c, 'draw')
            ctx.finding('R14.5', f'{c}.draw:clamp', dc, fn, f'a return of {c}.draw() {", ".join(sorted(set(bad)))}: the draw can leave the support {what}', where=f'{dc.name}.draw')


def inner_fields(prog, c):
    """fields of class c (through its MRO) that are assigned a Distribution instance: name -> [(method, call)]"""
    out = {}
    for k in prog.mro(c):
        ci = prog.classes.get(k)
        if ci is None:
            continue
        for m, fn in ci.methods.items():
            for st in walk_shallow(fn):
                if isinstance(st, (ast.Assign, ast.AnnAssign)) and getattr(st, 'value', None) is not None and isinstance(st.value, ast.Call) \
                        and isinstance(st.value.func, ast.Name) and st.value.func.id in prog.classes and prog.is_subclass(st.value.func.id, 'Distribution'):
                    for t in (st.targets if isinstance(st, ast.Assign) else [st.target]):
                        if is_self_attr(t):
                            out.setdefault(t.attr, []).append((k, m, st))
    return out


def r142(ctx, dists):
    prog = ctx.prog
    ctx.rule('R14.2', 'stream discipline: uniforms only via self._stream / the positive-uniform helper / inner distributions rebuilt by _set_stream with the new stream; init-before-use of fields read by _set_stream')
    base = prog.cls('Distribution')
    bs = prog.method('Distribution', '_set_stream', inherited=False)
    sp = bs.args.args[1].arg
    stores = [s for s in walk_shallow(bs) if isinstance(s, (ast.Assign, ast.AnnAssign)) and any(is_self_attr(t) for t in (s.targets if isinstance(s, ast.Assign) else [s.target]))]
    ok = len(stores) == 1 and unparse(stores[0].value) == sp
    SF = None
    if ok:
        t = (stores[0].targets if isinstance(stores[0], ast.Assign) else [stores[0].target])[0]
        SF = t.attr
    ctx.ob('R14.2', 'Distribution._set_stream', ok, sample=f'Distribution._set_stream stores the stream in {SF}')
    if not ok:
        ctx.finding('R14.2', 'Distribution._set_stream', base, bs, '_set_stream does not store exactly its stream argument', where='Distribution._set_stream')
        return
    setter = base.setters.get('stream')
    ok = False
    if setter is not None:
        calls = [c for c in walk_shallow(setter) if isinstance(c, ast.Call) and isinstance(c.func, ast.Attribute) and is_self_attr(c.func) and c.func.attr == '_set_stream'
                 and len(c.args) == 1 and unparse(c.args[0]) == setter.args.args[1].arg]
        gs = CFG(setter)
        ok = bool(calls) and not gs.reaches(gs.entry, gs.exit, avoid=[n for c in calls for n in _nodes_containing(gs, c)], labels_excluded=('exc', 'raise', 'reraise'))
    ctx.ob('R14.2', 'Distribution.stream.setter', ok)
    if not ok:
        ctx.finding('R14.2', 'Distribution.stream:setter', base, setter or base.node, 'assigning .stream does not call _set_stream(stream) on every path: inner distributions and cached draw state keep depending on the old stream',
                    where='Distribution.stream')
    for c in dists:
        ci = prog.cls(c)
        inner = inner_fields(prog, c)
        # (d) streams are reached only through self._stream
        for k in prog.mro(c):
            kc = prog.classes.get(k)
            if kc is None or kc.module.name != 'distributions':
                continue
            for m, fn in kc.methods.items():
                for x in walk_shallow(fn):
                    if isinstance(x, ast.Call) and isinstance(x.func, ast.Attribute) and x.func.attr in ('next_float', 'next_int', 'next_bool'):
                        ctx.examined()
                        recv = unparse(x.func.value)
                        if recv != f'self.{SF}':
                            ctx.ob('R14.2', f'{k}.{m}:{recv}', False)
                            ctx.finding('R14.2', f'{k}.{m}:foreign-stream:{recv}', kc, x, f'`{short(x)}` draws from `{recv}`, not from self.{SF}: after re-pointing, the old stream is still consumed',
                                        where=f'{k}.{m}')
                for st in walk_shallow(fn):
                    if isinstance(st, (ast.Assign, ast.AnnAssign)) and getattr(st, 'value', None) is not None and m != '_set_stream':
                        for t in (st.targets if isinstance(st, ast.Assign) else [st.target]):
                            if is_self_attr(t) and t.attr != SF and isinstance(st.value, ast.Name) and st.value.id in ('stream',) :
                                ctx.ob('R14.2', f'{k}.{m}:stream-alias', False)
                                ctx.finding('R14.2', f'{k}.{m}:stream-alias:{t.attr}', kc, st, f'the stream is cached in {t.attr} outside _set_stream', where=f'{k}.{m}')
        if not inner:
            ctx.ob('R14.2', f'{c}:no-inner', True)
            continue
        ss = ci.methods.get('_set_stream')
        if ss is None:
            ctx.ob('R14.2', f'{c}._set_stream', False)
            ctx.finding('R14.2', f'{c}:_set_stream-missing', ci, ci.node, f'{c} stores inner distributions {sorted(inner)} but does not override _set_stream: after re-pointing they keep drawing from the old stream',
                        where=c)
            continue
        g = CFG(ss)
        sparam = ss.args.args[1].arg
        sup = [x for x in walk_shallow(ss) if isinstance(x, ast.Call) and isinstance(x.func, ast.Attribute) and x.func.attr == '_set_stream' and is_super_call(x.func.value)]
        for f, sites in sorted(inner.items()):
            outside = [(k, m) for (k, m, st) in sites if m != '_set_stream']
            asg = [st for (k, m, st) in sites if m == '_set_stream' and k == c]
            all_asg = [st for st in walk_shallow(ss) if isinstance(st, (ast.Assign, ast.AnnAssign)) and any(is_self_attr(t, f) for t in (st.targets if isinstance(st, ast.Assign) else [st.target]))]
            every_path = bool(all_asg) and not g.reaches(g.entry, g.exit, avoid=[n for a in all_asg for n in _nodes_containing(g, a)], labels_excluded=('exc', 'raise', 'reraise'))
            new_stream = True
            for st in asg:
                a0 = st.value.args[0] if st.value.args else None
                t0 = unparse(a0) if a0 is not None else None
                if t0 == sparam:
                    continue
                if t0 == f'self.{SF}' and sup and g.dominates(_node_containing(g, sup[0]), g.node_for(st)):
                    continue
                new_stream = False
            ok = not outside and bool(asg) and every_path and new_stream
            ctx.ob('R14.2', f'{c}.{f}', ok, sample=f'{c}.{f}: rebuilt in _set_stream on every path {every_path} with the new stream {new_stream}; built elsewhere {outside}')
            if not ok:
                ctx.finding('R14.2', f'{c}._set_stream:{f}', ci, ss,
                            f'inner distribution {f} of {c} is not rebuilt with the new stream on every path of _set_stream (rebuilt {bool(asg)}, every path {every_path}, '
                            f'new stream {new_stream}, also built in {outside}): after re-pointing the old stream is still consumed', where=f'{c}._set_stream')
        # (c) init-before-use
        init = ci.methods.get('__init__')
        if init is not None:
            reads = {x.attr for x in walk_shallow(ss) if is_self_attr(x) and isinstance(x.ctx, ast.Load) and x.attr != SF}
            gi = CFG(init)
            supi = [x for x in walk_shallow(init) if isinstance(x, ast.Call) and isinstance(x.func, ast.Attribute) and x.func.attr == '__init__' and is_super_call(x.func.value)]
            class_consts = set()
            for k in prog.mro(c):
                if k in prog.classes:
                    class_consts |= set(prog.classes[k].assigns)
            for f in sorted(reads - class_consts - set(inner)):
                asg = [st for st in walk_shallow(init) if isinstance(st, (ast.Assign, ast.AnnAssign)) and any(is_self_attr(t, f) for t in (st.targets if isinstance(st, ast.Assign) else [st.target]))]
                ok = bool(asg) and bool(supi) and gi.dominates(gi.node_for(asg[0]), _node_containing(gi, supi[0]))
                ctx.ob('R14.2', f'{c}.__init__:{f}', ok, sample=f'{c}.__init__: {f} assigned before super().__init__ (which calls _set_stream that reads it): {ok}')
                if not ok:
                    ctx.finding('R14.2', f'{c}.__init__:{f}-before-super', ci, init, f'_set_stream of {c} reads {f}, which __init__ assigns only after super().__init__() has already called _set_stream',
                                where=f'{c}.__init__')


def r143(ctx, dists):
    prog = ctx.prog
    ctx.rule('R14.3', 'state carried from one draw to the next (cached values) is invalidated when the distribution is pointed at another stream')
    n = 0
    for c in dists:
        ci = prog.cls(c)
        # draw path = draw + self-helpers it calls (transitively), excluding _set_stream
        path = []
        todo = ['draw']
        seen = set()
        while todo:
            m = todo.pop()
            if m in seen:
                continue
            seen.add(m)
            dc, fn = prog.resolve(c, m)
            if fn is None or dc.module.name != 'distributions':
                continue
            path.append((dc, fn))
            for x in walk_shallow(fn):
                if isinstance(x, ast.Call) and isinstance(x.func, ast.Attribute) and (is_self_attr(x.func) or is_super_call(x.func.value)) \
                        and x.func.attr not in ('_set_stream',):
                    todo.append(x.func.attr)
        written = {x.attr for (dc, fn) in path for x in walk_shallow(fn) if is_self_attr(x) and isinstance(x.ctx, ast.Store)}
        read = {x.attr for (dc, fn) in path for x in walk_shallow(fn) if is_self_attr(x) and isinstance(x.ctx, ast.Load)}
        carried = written & read
        if not carried:
            continue
        # fields reset by any _set_stream in the MRO
        # fields certainly reset when a stream is assigned: on every normal path of obj._set_stream(..), super / self calls followed, to a
        # constant or an empty container -- or dropped from the instance so that the class-level constant shows again
        from ..statrules import must_effects
        reset = set()
        for (k_, f_, n_) in must_effects(prog, c, '_set_stream'):
            if k_ != 'set':
                continue
            v_ = getattr(n_, 'value', None)
            if isinstance(n_, (ast.Assign, ast.AnnAssign)) and v_ is not None:
                if isinstance(v_, ast.Constant) or (isinstance(v_, (ast.List, ast.Tuple, ast.Set)) and not v_.elts) or (isinstance(v_, ast.Dict) and not v_.keys):
                    reset.add(f_)
            else:
                # removed from the instance: the value read next is the class-level default, which must be a constant
                dflt = next((prog.classes[k2].assigns[f_] for k2 in prog.mro(c) if k2 in prog.classes and f_ in prog.classes[k2].assigns), None)
                if dflt is None or isinstance(dflt, ast.Constant):
                    reset.add(f_)
        for f in sorted(carried):
            n += 1
            ok = f in reset
            how = 'reset in _set_stream'
            if not ok:
                # read only under a flag that is itself reset?
                guarded_all = True
                for (dc, fn) in path:
                    g = CFG(fn)
                    for x in walk_shallow(fn):
                        if is_self_attr(x, f) and isinstance(x.ctx, ast.Load):
                            node = None
                            for nd in g.stmt_nodes():
                                if nd.ast is not None and any(y is x for y in ast.walk(nd.ast)):
                                    node = nd
                            flags = [unparse(cn.ast) for (cn, br) in g.guard_branches(node) if br and is_self_attr(cn.ast) and cn.ast.attr in reset] if node else []
                            if not flags:
                                guarded_all = False
                ok = guarded_all
                how = 'read only under a flag that _set_stream resets'
            ctx.ob('R14.3', f'{c}.{f}', ok, sample=f'{c}.{f} is carried between draws: {how if ok else "NOT invalidated on re-pointing"}')
            if not ok:
                ctx.finding('R14.3', f'{c}:{f}:not-invalidated', ci, ci.node,
                            f'{c}.{f} carries a value from one draw to the next and is not invalidated by _set_stream: after pointing the distribution at another stream the next '
                            f'draw still depends on the old stream', where=c)
    ctx.floor('R14.3', 'draw-carried fields', n, 1)


def r144(ctx):
    prog = ctx.prog
    ctx.rule('R14.4', 'no shared mutable state in distributions.py: class attributes are immutable constants, nothing writes class or module attributes')
    mod = prog.module('distributions')
    n = 0
    for c, ci in prog.classes.items():
        if ci.module is not mod:
            continue
        for (name, v, st) in ci.all_assigns:
            n += 1
            cv = const_value(v)
            ok = cv is not NOCONST and isinstance(cv, (int, float, str, bool, tuple, type(None), frozenset))
            if not ok:
                # a container that no method changes in place (instances only ever re-bind the name) cannot carry anything between them
                from ..statrules import instance_mutation_sites
                ok = not instance_mutation_sites(prog, c, name) and isinstance(v, (ast.List, ast.Dict, ast.Set, ast.Tuple)) \
                    and not (v.elts if not isinstance(v, ast.Dict) else v.keys)
            ctx.ob('R14.4', f'{c}.{name}', ok, sample=f'{c}.{name} = {short(v, 40)}')
            if not ok:
                ctx.finding('R14.4', f'{c}.{name}:mutable-class-attribute', ci, st, f'class attribute {c}.{name} = {short(v, 40)} is shared mutable state: instances can influence each other', where=c)
        for m, fn in list(ci.methods.items()) + list(ci.setters.items()):
            for x in walk_shallow(fn):
                if isinstance(x, (ast.Global, ast.Nonlocal)):
                    ctx.ob('R14.4', f'{c}.{m}:global', False)
                    ctx.finding('R14.4', f'{c}.{m}:global', ci, x, f'`{short(x)}`: module-level state shared by all distributions', where=f'{c}.{m}')
                if isinstance(x, ast.Attribute) and isinstance(x.ctx, (ast.Store, ast.Del)):
                    r = x.value
                    if (isinstance(r, ast.Name) and (r.id == 'cls' or r.id in prog.classes)) or unparse(r) in ('type(self)', 'self.__class__'):
                        ctx.ob('R14.4', f'{c}.{m}:class-write', False)
                        ctx.finding('R14.4', f'{c}.{m}:class-attribute-write:{x.attr}', ci, x, f'`{unparse(x)}` writes a class attribute: state shared between instances', where=f'{c}.{m}')
    for st in mod.tree.body:
        if isinstance(st, (ast.Assign, ast.AnnAssign)):
            for t in (st.targets if isinstance(st, ast.Assign) else [st.target]):
                if isinstance(t, ast.Name) and t.id not in ('__all__', 'logger'):
                    v = st.value
                    ok = v is not None and isinstance(const_value(v), (int, float, str, tuple, bool)) and const_value(v) is not NOCONST
                    ctx.ob('R14.4', f'module:{t.id}', ok)
                    if not ok:
                        ctx.finding('R14.4', f'distributions:{t.id}:module-state', None, st, f'module-level variable {t.id} in distributions.py', module=mod, where='distributions')
    ctx.floor('R14.4', 'class attributes examined', n, 1)


def r146(ctx):
    prog = ctx.prog
    ctx.rule('R14.6', 'every quantity distribution wrapper XDist has quantity = X and draws X(self._dist.draw(), self._unit); the unit is validated against X._units')
    wrappers = [c for c in prog.subclasses('QuantityDist') if c != 'SIDist']
    ctx.floor('R14.6', 'quantity wrappers', len(wrappers), 41)
    for c in wrappers:
        ci = prog.cls(c)
        q = ci.assigns.get('quantity')
        qn = unparse(q) if q is not None else None
        fn = ci.methods.get('draw')
        rs = [r for r in walk_shallow(fn) if isinstance(r, ast.Return)] if fn is not None else []
        ok = qn == c[:-4] and qn in prog.classes and prog.is_subclass(qn, 'Quantity') and len(rs) == 1 and isinstance(rs[0].value, ast.Call) \
            and unparse(rs[0].value.func) == qn and [unparse(a) for a in rs[0].value.args] == ['self._dist.draw()', 'self._unit']
        ctx.ob('R14.6', c, ok, sample=f'{c}: quantity = {qn}; draw returns {short(rs[0].value) if rs else "?"}')
        if not ok:
            ctx.finding('R14.6', f'{c}:wrapper', ci, fn or ci.node, f'{c} must have quantity = {c[:-4]} and draw {c[:-4]}(self._dist.draw(), self._unit); found quantity = {qn}, '
                        f'draw returns {short(rs[0].value) if rs else "?"}', where=c)
    qd = prog.method('QuantityDist', '__init__', inherited=False)
    up = qd.args.args[2].arg
    tests = [unparse(i.test) for i in walk_shallow(qd) if isinstance(i, ast.If) and any(isinstance(x, ast.Raise) for x in i.body)]
    ok = any(t in (f'not {up} in self.quantity._units', f'{up} not in self.quantity._units') for t in tests) and any('isinstance(' in t and 'Distribution' in t for t in tests)
    stores = {t.attr: unparse(s.value) for s in walk_shallow(qd) if isinstance(s, ast.Assign) for t in s.targets if is_self_attr(t)}
    ok = ok and stores.get('_unit') == up and stores.get('_dist') == qd.args.args[1].arg
    ctx.ob('R14.6', 'QuantityDist.__init__', ok, sample=f'QuantityDist.__init__ guards {tests}; stores {stores}')
    if not ok:
        ctx.finding('R14.6', 'QuantityDist.__init__', prog.cls('QuantityDist'), qd, 'QuantityDist.__init__ must validate the wrapped distribution and the unit against quantity._units and store both',
                    where='QuantityDist.__init__')


def r147_uniform_bounds(ctx):
    """R14.7: DistUniform.draw() in [lo, hi): affine bounds over the fields under the constructor's ordering guard"""
    from ..affine import Affine, Lin, straight_line_env
    prog = ctx.prog
    c = 'DistUniform'
    ctx.rule('R14.7', 'DistUniform.draw() = lo + (hi - lo) * u lies in [lo, hi) for u in [0, 1): affine bounds over the fields, ordering taken from the constructor guard')
    ci = prog.cls(c)
    init = prog.method(c, '__init__', inherited=False)
    draw = prog.method(c, 'draw', inherited=False)
    # field <- parameter map and the ordering the constructor enforces
    fld = {}
    for st in body_of(init):
        if isinstance(st, (ast.Assign, ast.AnnAssign)):
            t = st.targets[0] if isinstance(st, ast.Assign) else st.target
            v = st.value
            if isinstance(v, ast.Call) and unparse(v.func) == 'float' and len(v.args) == 1:
                v = v.args[0]
            if is_self_attr(t) and isinstance(v, ast.Name):
                fld[v.id] = 'self.' + t.attr
    strict = None
    names = None
    for st in body_of(init):
        if isinstance(st, ast.If) and any(isinstance(x, ast.Raise) for x in st.body) and isinstance(st.test, ast.Compare) and len(st.test.ops) == 1:
            l, r, op = unparse(st.test.left), unparse(st.test.comparators[0]), st.test.ops[0]
            if l in fld and r in fld:
                # refusing  a <= b  leaves a > b ;  a < b leaves a >= b ; mirrored for >= / >
                if isinstance(op, ast.LtE):
                    names, strict = (l, r), True
                elif isinstance(op, ast.Lt):
                    names, strict = (l, r), False
                elif isinstance(op, ast.GtE):
                    names, strict = (r, l), True
                elif isinstance(op, ast.Gt):
                    names, strict = (r, l), False
    if names is None:
        ctx.ob('R14.7', f'{c}:ordering-guard', False)
        ctx.finding('R14.7', f'{c}.__init__:ordering-guard', ci, init, 'the constructor does not refuse hi <= lo: the draw is not confined to a non-empty interval', where=f'{c}.__init__')
        return
    big, small = fld[names[0]], fld[names[1]]         # big > small (or >=) after the guard
    aff = Affine({big: False, small: False}, assumptions=[(Lin(0, {big: 1, small: -1}), strict)],
                 units={'self._stream.next_float()': True, 'self.stream.next_float()': True})
    env = straight_line_env(aff, draw)
    rs = [r for r in walk_shallow(draw) if isinstance(r, ast.Return) and r.value is not None]
    for r in rs:
        ctx.examined()
        v = aff.eval(r.value, env)
        problems = []
        if v.lb is None or not aff.le(Lin(0, {small: 1}), v.lb[0]):
            problems.append(f'no proof that the draw is >= {small}')
        if v.ub is None or not aff.le(v.ub[0], Lin(0, {big: 1})):
            problems.append(f'no proof that the draw is <= {big}')
        elif v.ub[0] == Lin(0, {big: 1}) and not v.ub[1]:
            problems.append(f'the upper bound {big} is not excluded')
        ok = not problems
        ctx.ob('R14.7', f'{c}.draw', ok, sample=f'{c}.draw returns `{short(r.value, 60)}` in {v} given {big} {">" if strict else ">="} {small}')
        if not ok:
            ctx.finding('R14.7', f'{c}.draw:bounds', ci, r, f'draw() = `{short(r.value, 70)}` has bounds {v}: ' + '; '.join(problems), where=f'{c}.draw')
    ctx.floor('R14.7', 'returns of DistUniform.draw', len(rs), 1)


def r1410_no_self_text_during_construction(ctx):
    """`Distribution.__init__` assigns the stream (through the stream setter) before the subclass constructors have stored their
    parameters.  Anything on that path that renders the object itself -- `str(self)`, `repr(self)`, `f"{self}"`, `'%s' % self` -- calls the
    subclass's `__str__`, which reads those parameters: construction of a valid distribution fails (also when the text is only wanted by a
    log call that is switched on).  Read in the source as written (log calls are otherwise invisible to the rules)."""
    prog = ctx.prog
    ctx.rule('R14.10', 'nothing reachable from Distribution.__init__ renders `self` as text (the subclass parameters are not stored yet)')
    mod = prog.modules['distributions']
    raw = ast.parse(mod.src)
    classes = {c.name: c for c in raw.body if isinstance(c, ast.ClassDef)}
    base = classes.get('Distribution')
    if base is None:
        raise AnalysisError('anchor vanished: class Distribution')
    methods = {m.name: m for m in base.body if isinstance(m, ast.FunctionDef)}
    todo, seen = ['__init__'], set()
    n = 0
    while todo:
        m = todo.pop()
        if m in seen or m not in methods:
            continue
        seen.add(m)
        fn = methods[m]
        for x in ast.walk(fn):
            if isinstance(x, ast.Call) and isinstance(x.func, ast.Attribute) and unparse(x.func.value) == 'self':
                todo.append(x.func.attr)
            elif isinstance(x, ast.Assign) and any(isinstance(t, ast.Attribute) and unparse(t.value) == 'self' for t in x.targets):
                for t in x.targets:
                    if isinstance(t, ast.Attribute):
                        # a property setter of the same name runs
                        for s_ in base.body:
                            if isinstance(s_, ast.FunctionDef) and s_.name == t.attr and any(unparse(d).endswith('.setter') for d in s_.decorator_list):
                                methods.setdefault('<setter>' + t.attr, s_)
                                todo.append('<setter>' + t.attr)
        for x in ast.walk(fn):
            hit = None
            if isinstance(x, ast.FormattedValue) and unparse(x.value) == 'self':
                hit = x
            elif isinstance(x, ast.Call) and unparse(x.func) in ('str', 'repr', 'format') and x.args and unparse(x.args[0]) == 'self':
                hit = x
            elif isinstance(x, ast.BinOp) and isinstance(x.op, ast.Mod) and isinstance(x.left, ast.Constant) and isinstance(x.left.value, str) \
                    and any(unparse(y) == 'self' for y in ([x.right] if not isinstance(x.right, ast.Tuple) else x.right.elts)):
                hit = x
            if hit is not None:
                n += 1
                ctx.ob('R14.10', f'Distribution.{fn.name}:self-as-text', False, sample=f'Distribution.{fn.name}: `{short(hit, 40)}`')
                ctx.finding('R14.10', f'Distribution.{fn.name}:self-as-text', prog.classes.get('Distribution'), hit,
                            f'`{short(hit, 50)}` in Distribution.{fn.name} runs while Distribution.__init__ assigns the stream, before the subclass constructor has stored its '
                            f'parameters: the subclass __str__ reads them and raises AttributeError, so a distribution with valid parameters cannot be constructed '
                            f'(as soon as the text is actually built, e.g. with the module logger on DEBUG)', where=f'Distribution.{fn.name}', module=mod)
    ctx.ob('R14.10', 'Distribution.__init__:reachable', True, sample=f'methods reachable from Distribution.__init__: {sorted(seen)}; renderings of self: {n}')
