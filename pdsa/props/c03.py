"""C03 -- run horizon: bounded runs execute exactly the events up to the bound and compose (DESIGN §3-C03)."""
from .. import simrules as S

EXPLANATION = (
    "The horizon test of _run is extracted from the loop and evaluated exhaustively over (next event time ? bound) x "
    "including x list-empty (12 cases) against the specification; the (bound, including) pair written by start / "
    "run_up_to / run_up_to_including is constant-propagated through _start_impl; every write of "
    "ReplicationState.ENDING must be unreachable while clock/bound < replication end (resumability); every pop_first() "
    "must be dominated by a horizon test of the next event's time; caller-supplied bounds beyond the replication end "
    "must be clamped or refused; the clock is left at the bound monotonically (R2.5). Trace equality under arbitrary "
    "segmentation is a statement about executions and is not decided; only its structural preconditions are.")


def run(ctx):
    ctx.uses('simulator')
    # first: state shared between simulator objects (it makes every later anchor meaningless, so it is reported even when they vanish)
    S.shared_state(ctx, None, 'R3.5')
    sc = S.SimCtx(ctx.prog)
    S.r31_horizon(ctx, sc)
    # the horizon is decided from peek_first(): it is the earliest pending event only while the backing list is a heap (shared rule with C01)
    from . import c01
    ctx.uses('eventlist')
    for cname_ in ctx.prog.subclasses('EventListInterface'):
        c01.check_eventlist(ctx, cname_)
    # ... and the horizon test compares clock values, which are quantities on Duration clocks: their ordering operators must be the
    # ordering of the SI values (shared rule with C01 / C16)
    from . import c16
    ctx.uses('units')
    c16.r166(ctx, None)
    S.r32_ending(ctx, sc)
    # ... and "the replication end" is what the replication object reports: start time + run length (shared rule with C02 / C06 / C11)
    ctx.uses('experiment')
    S.replication_frame(ctx, 'R3.6')
    S.r33_pop_horizon(ctx, sc)
    S.r34_bound_clamped(ctx, sc)
    S.r25_monotone_clock(ctx, sc)
    # composition of steps and bounded runs relies on every popped event being executed exactly once (shared rule with C02)
    S.r21_typestate(ctx, sc)
    # an admitted bounded run must actually be carried out: no wake-up of the run thread may be lost (shared rule with C04)
    S.r44_wait_clear(ctx, sc)
    # the run loop publishes TIME_CHANGED between popping an event and executing it: a delivery that can block (a listener re-entering the
    # producer) or skip subscribers stops the run with the event already taken (delivery rule shared with C08)
    from . import c08
    ctx.uses('pubsub')
    c08.r81(ctx)
