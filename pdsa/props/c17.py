"""C17 -- unit conversion is faithful for every declared unit (DESIGN §3-C17, R17.1-R17.9)."""
from __future__ import annotations

import ast
import io
import itertools
import math
import re
import tokenize

from ..core import AnalysisError, NOCONST, body_of, const_value, is_self_attr, short, unparse, walk_shallow
from ..tables import UnitTables

EXPLANATION = (
    "Exhaustive literal-table evaluation of the unit tables of all Quantity classes (every unit of every class): base "
    "unit present with factor exactly 1.0; display table maps declared units to strings (and alias -> canonical pairs "
    "share one factor); descriptions cover exactly the units; factors are positive finite floats; no duplicate literal "
    "keys; every compound unit name that parses into declared component units with the right dimension (A/B, A/B^2, "
    "A/B/C, /B, B^2, B^3, A.B) has the factor its components imply; __all__ names exist, no implicit string "
    "concatenation, every quantity class exported; and the dataflow of __new__/displayvalue/as_unit/_val and of the "
    "comparison operators (only SI values). Does not decide 'original value up to rounding' (floating point).")

REL_TOL = 1e-9


def run(ctx):
    prog = ctx.prog
    ctx.uses('units')
    ut = UnitTables(prog)
    ctx.floor('R17', 'Quantity classes', len(ut.qclasses), 41)
    nunits = sum(len(ut.tables[c]['_units'].items) for c in ut.qclasses)
    ctx.floor('R17', 'declared units', nunits, 830)
    ctx.extra['units_checked'] = nunits
    ctx.exhaustive['R17.1-R17.6 all units of all Quantity classes'] = True
    r171_176(ctx, ut)
    r177(ctx, ut)
    r178(ctx, ut)
    r179(ctx, ut)
    # same-type + - abs neg keep the left operand's unit (they build their result through _val): shared rule with C16
    from . import c16
    c16.r166(ctx, ut)
    from ..statrules import memo_soundness
    memo_soundness(ctx, 'R17.11', ['units'])
    from ..statrules import shared_class_state
    shared_class_state(ctx, 'R17.10', sorted(c for c, ci in ctx.prog.classes.items() if ci.module.name == 'units'),
                       'what one quantity stores (e.g. a cache keyed by the unit spelling) is read by quantities of every other class: conversion factor and display '
                       'text then depend on which quantities were used before')


def r171_176(ctx, ut):
    prog = ctx.prog
    ctx.rule('R17.1', 'base unit declared with factor exactly 1.0')
    ctx.rule('R17.2', '_displayunits: every key a declared unit, every value a str')
    ctx.rule('R17.3', 'alias -> canonical pairs of the display table share one factor')
    ctx.rule('R17.4', '_descriptions keys = _units keys; values non-empty str')
    ctx.rule('R17.5', 'every factor a finite positive float')
    ctx.rule('R17.6', 'no duplicate key in any table literal')
    for c in ut.qclasses:
        ci = prog.cls(c)
        t = ut.tables[c]
        units = t['_units']
        ud = units.as_dict()
        # R17.1
        b = t['_baseunit']
        ok = b is not NOCONST and isinstance(b, str) and b in ud and type(ud[b]) is float and ud[b] == 1.0
        ctx.ob('R17.1', c, ok, sample=f'{c}._baseunit = {b!r} with factor {ud.get(b) if isinstance(b, str) else None}')
        if not ok:
            ctx.finding('R17.1', f'{c}._baseunit', ci, t['_baseunit_node'] or ci.node,
                        f'base unit {b!r} of {c} is not declared with factor 1.0 (factor {ud.get(b) if isinstance(b, str) else None}): '
                        f'values built without a unit and named products/quotients get the wrong SI value', where=c)
        # R17.5 / R17.6
        for (k, v, kn, vn) in units.items:
            okf = isinstance(k, str) and type(v) is float and math.isfinite(v) and v > 0
            ctx.ob('R17.5', f'{c}[{k}]', okf)
            if not okf:
                ctx.finding('R17.5', f'{c}._units[{k}]', ci, vn, f'factor of unit {k!r} of {c} is {v!r}: not a finite positive float', where=c)
        for name in ('_units', '_displayunits', '_descriptions', '_sidict'):
            for (k, old, new, kn) in t[name].duplicates():
                ctx.ob('R17.6', f'{c}.{name}[{k}]', False)
                ctx.finding('R17.6', f'{c}.{name}[{k}]', ci, kn, f'duplicate key {k!r} in {c}.{name}: {old!r} is silently replaced by {new!r}', where=c)
            ctx.ob('R17.6', f'{c}.{name}', not t[name].duplicates())
        # R17.2 / R17.3
        disp = t['_displayunits']
        for (k, v, kn, vn) in disp.items:
            ok2 = isinstance(k, str) and k in ud and isinstance(v, str)
            ctx.ob('R17.2', f'{c}[{k}]', ok2, sample=f'{c}._displayunits[{k!r}] = {v!r}')
            if not ok2:
                why = 'is not a declared unit' if not (isinstance(k, str) and k in ud) else f'maps to {v!r}, not a str: str() of such a quantity raises TypeError'
                ctx.finding('R17.2', f'{c}._displayunits[{k}]', ci, vn, f'display entry {k!r} of {c} {why}', where=c)
            elif v in ud:
                ok3 = ud[v] == ud[k]
                ctx.ob('R17.3', f'{c}[{k}->{v}]', ok3, sample=f'{c}: alias {k!r}={ud[k]} displays as {v!r}={ud[v]}')
                if not ok3:
                    ctx.finding('R17.3', f'{c}._units[{k}]~[{v}]', ci, kn,
                                f'{k!r} is displayed as {v!r} but their factors differ ({ud[k]} vs {ud[v]})', where=c)
        # R17.4
        desc = t['_descriptions']
        dd = desc.as_dict()
        missing = [k for k in ud if k not in dd]
        extra = [k for k in dd if k not in ud]
        badv = [k for k, v in dd.items() if not (isinstance(v, str) and v.strip())]
        ok4 = not missing and not extra and not badv
        ctx.ob('R17.4', c, ok4, sample=f'{c}: {len(ud)} units, {len(dd)} descriptions')
        if not ok4:
            ctx.finding('R17.4', f'{c}._descriptions', ci, desc.node,
                        f'{c}: units without description {missing}; descriptions of undeclared units {extra}; empty descriptions {badv}', where=c)


# --------------------------------------------------------------------------- R17.7
POW = re.compile(r'^(.+?)\^?([23])$')


def part_alternatives(ut, part, allow_direct=True):
    """[(factor, signature, text)] for one '.'-free component name"""
    out = []
    if part == '':
        return [(1.0, {}, '1')]
    if allow_direct:
        for q in ut.qclasses:
            u = ut.units(q)
            if part in u and isinstance(u[part], float):
                out.append((u[part], ut.sig(q), f'{q}[{part}]'))
    m = POW.match(part)
    if m:
        base, k = m.group(1), int(m.group(2))
        for q in ut.qclasses:
            u = ut.units(q)
            if base in u and isinstance(u[base], float):
                out.append((u[base] ** k, {a: b * k for a, b in ut.sig(q).items()}, f'{q}[{base}]^{k}'))
    return out


def term_alternatives(ut, term, single):
    """alternatives for a numerator/denominator term, which may be a '.'-product"""
    alts = part_alternatives(ut, term, allow_direct=not single)
    if '.' in term:
        pieces = term.split('.')
        per = [part_alternatives(ut, p) for p in pieces]
        if all(per):
            for combo in itertools.islice(itertools.product(*per), 400):
                f, s, txt = 1.0, {}, []
                for (pf, ps, pt) in combo:
                    f *= pf
                    s = ut.comb(s, ps, 1)
                    txt.append(pt)
                alts.append((f, s, '.'.join(txt)))
    return alts


def parses(ut, cname, name):
    """all readings of unit name as a compound of declared units with the dimension of cname: [(factor, text)]"""
    terms = name.split('/')
    single = len(terms) == 1
    per = [term_alternatives(ut, t, single and i == 0) for i, t in enumerate(terms)]
    if not all(per):
        return []
    want = ut.sig(cname)
    out = []
    for combo in itertools.islice(itertools.product(*per), 2000):
        f, s = combo[0][0], dict(combo[0][1])
        txt = combo[0][2]
        for (pf, ps, pt) in combo[1:]:
            f /= pf
            s = ut.comb(s, ps, -1)
            txt += ' / ' + pt
        if s == want:
            # the trivial reading "the unit is itself" carries no information
            if single and txt == f'{cname}[{name}]':
                continue
            out.append((f, txt))
    return out


def r177(ctx, ut):
    prog = ctx.prog
    ctx.rule('R17.7', 'compound unit names (A/B, A/B^2, A/B/C, /B, B^2, B^3, A.B) have the factor implied by their declared component units')
    n = 0
    for c in ut.qclasses:
        ci = prog.cls(c)
        for (k, v, kn, vn) in ut.tables[c]['_units'].items:
            if not isinstance(k, str) or not isinstance(v, float):
                continue
            ctx.examined()
            rd = parses(ut, c, k)
            if not rd:
                continue
            n += 1
            ok = any(abs(f - v) <= REL_TOL * max(abs(f), abs(v)) for (f, _t) in rd)
            ctx.ob('R17.7', f'{c}[{k}]', ok, sample=f'{c}[{k!r}] = {v!r}; components give {rd[0][0]!r} via {rd[0][1]}')
            if not ok:
                ctx.finding('R17.7', f'{c}._units[{k}]', ci, vn,
                            f'unit {k!r} of {c} is declared with factor {v!r} but its components give '
                            + ' or '.join(f'{f!r} ({t})' for (f, t) in rd[:3]), where=c)
    ctx.floor('R17.7', 'compound unit instances', n, 180)
    ctx.extra['compound_units_checked'] = n


# --------------------------------------------------------------------------- R17.8
def r178(ctx, ut):
    prog = ctx.prog
    ctx.rule('R17.8', '__all__ of every module: names bound at module level, no adjacent string tokens; units.py exports every quantity class and wrapper')
    nmods = 0
    for mname, mod in sorted(prog.modules.items()):
        node = None
        for st in mod.tree.body:
            if isinstance(st, ast.Assign) and any(isinstance(t, ast.Name) and t.id == '__all__' for t in st.targets):
                node = st
        if node is None:
            continue
        nmods += 1
        names = const_value(node.value)
        if names is NOCONST:
            raise AnalysisError(f'{mname}.__all__ is not a literal list')
        defined = set()
        for st in mod.tree.body:
            if isinstance(st, (ast.ClassDef, ast.FunctionDef, ast.AsyncFunctionDef)):
                defined.add(st.name)
            elif isinstance(st, (ast.Assign, ast.AnnAssign)):
                for t in (st.targets if isinstance(st, ast.Assign) else [st.target]):
                    for x in ast.walk(t):
                        if isinstance(x, ast.Name):
                            defined.add(x.id)
            elif isinstance(st, (ast.Import, ast.ImportFrom)):
                for a in st.names:
                    defined.add((a.asname or a.name).split('.')[0])
        undefined = [x for x in names if x not in defined]
        # adjacent string tokens inside the list
        adj = []
        prev = None
        for tk in tokenize.generate_tokens(io.StringIO(mod.src).readline):
            if tk.start[0] < node.lineno or tk.end[0] > node.end_lineno:
                continue
            if tk.type in (tokenize.NL, tokenize.NEWLINE, tokenize.COMMENT, tokenize.INDENT, tokenize.DEDENT):
                continue
            if tk.type == tokenize.STRING and prev is not None and prev.type == tokenize.STRING:
                adj.append((prev.string, tk.string, tk.start[0]))
            prev = tk
        ok = not undefined and not adj
        ctx.ob('R17.8', f'{mname}.__all__', ok, sample=f'{mname}.__all__: {len(names)} names, undefined {undefined}, adjacent string tokens {len(adj)}')
        for (a, b, ln) in adj:
            fake = ast.Constant(0)
            fake.lineno = ln
            ctx.finding('R17.8', f'{mname}.__all__:{a.strip(chr(34)+chr(39))}+{b.strip(chr(34)+chr(39))}', None, fake,
                        f'missing comma in {mname}.__all__: {a} {b} are concatenated into one name', module=mod, where=f'{mname}.__all__',
                        construct=f'{a} {b}')
        for u in undefined:
            if any(u == (a.strip('"\'') + b.strip('"\'')) for (a, b, _l) in adj):
                continue            # consequence of the missing comma already reported
            ctx.finding('R17.8', f'{mname}.__all__:{u}', None, node, f'{mname}.__all__ names {u!r}, which is not defined in the module '
                        f'(`from ... import *` raises AttributeError)', module=mod, where=f'{mname}.__all__', construct=u)
        if mname == 'units':
            expected = set(ut.qclasses) | set(prog.subclasses('QuantityDist')) | {'Quantity', 'SI'}
            notexp = sorted(expected - set(names))
            ctx.ob('R17.8', 'units.__all__:complete', not notexp, sample=f'units.__all__ exports all {len(expected)} quantity classes and wrappers: {not notexp}')
            for u in notexp:
                ctx.finding('R17.8', f'units.__all__:missing:{u}', None, node, f'{u} is not exported by units.__all__', module=mod,
                            where='units.__all__', construct=u)
    ctx.floor('R17.8', 'modules with __all__', nmods, 12)


# --------------------------------------------------------------------------- R17.9
def r179(ctx, ut):
    prog = ctx.prog
    ctx.rule('R17.9', 'conversion dataflow of Quantity.__new__/__init__/displayvalue/as_unit/unit')
    ci = prog.cls('Quantity')
    # __new__: value * cls._units[unit]; membership guard; base unit when unit is None
    fn = prog.method('Quantity', '__new__', inherited=False)
    args = [a.arg for a in fn.args.args]
    value, unit = args[1], args[2]
    mult_names = set()
    lookups = []
    for n in walk_shallow(fn):
        if isinstance(n, ast.Assign) and isinstance(n.value, ast.Subscript) and unparse(n.value.value) == 'cls._units' and isinstance(n.targets[0], ast.Name):
            mult_names.add(n.targets[0].id)
            lookups.append(unparse(n.value.slice))
    prods = [n for n in walk_shallow(fn) if isinstance(n, ast.BinOp) and isinstance(n.op, ast.Mult)
             and {unparse(n.left), unparse(n.right)} & {value}
             and ({unparse(n.left), unparse(n.right)} & (mult_names | {f'cls._units[{unit}]', 'cls._units[cls._baseunit]'}))]
    for n in prods:                                   # direct lookups inside the product (no multiplier variable)
        for side in (n.left, n.right):
            if isinstance(side, ast.Subscript) and unparse(side.value) == 'cls._units':
                lookups.append(unparse(side.slice))
    other_arith = [n for n in walk_shallow(fn) if isinstance(n, ast.BinOp) and n not in prods and not isinstance(n.op, ast.Mod)]
    passed = [n for n in walk_shallow(fn) if isinstance(n, ast.Call) and unparse(n.func).endswith('__new__') and len(n.args) >= 2]
    ok_flow = bool(prods) and not other_arith and bool(passed) and all(
        unparse(p.args[1]) in {unparse(t) for a in walk_shallow(fn) if isinstance(a, ast.Assign) and a.value in prods for t in a.targets} | {unparse(x) for x in prods}
        for p in passed)
    ok_lookup = set(lookups) <= {unit, 'cls._baseunit'} and unit in lookups
    guard = any(isinstance(n, ast.If) and unparse(n.test) in (f'not {unit} in cls._units', f'{unit} not in cls._units') and any(isinstance(x, ast.Raise) for x in n.body)
                for n in walk_shallow(fn))
    ok = ok_flow and ok_lookup and guard
    ctx.ob('R17.9', 'Quantity.__new__', ok, sample=f'__new__: SI value = {short(prods[0]) if prods else "?"} with multiplier cls._units[{lookups}]; membership guard {guard}')
    if not ok:
        ctx.finding('R17.9', 'Quantity.__new__', ci, fn,
                    f'__new__ does not store value * cls._units[unit] after checking the unit is declared (product {bool(prods)}, '
                    f'other arithmetic {[short(x) for x in other_arith]}, lookups {lookups}, guard {guard})', where='Quantity.__new__')
    # __init__: self._unit = unit, or the base unit when None
    fn = prog.method('Quantity', '__init__', inherited=False)
    unit = fn.args.args[2].arg
    vals = {unparse(n.value) for n in walk_shallow(fn) if isinstance(n, ast.Assign) and any(is_self_attr(t, '_unit') for t in n.targets)}
    ok = vals and vals <= {unit, 'self._baseunit', 'type(self)._baseunit'} and unit in vals
    ctx.ob('R17.9', 'Quantity.__init__', bool(ok), sample=f'__init__ stores unit from {sorted(vals)}')
    if not ok:
        ctx.finding('R17.9', 'Quantity.__init__', ci, fn, f'__init__ stores {sorted(vals)} as unit instead of the chosen unit / base unit', where='Quantity.__init__')
    # displayvalue = float(self) / self._units[self._unit]; unit returns self._unit; si returns float(self)
    for (prop, shapes) in (('displayvalue', ('float(self) / self._units[self._unit]', 'float(self) / type(self)._units[self._unit]', 'self.si / self._units[self._unit]')),
                           ('unit', ('self._unit',)), ('si', ('float(self)',))):
        fn = prog.method('Quantity', prop, inherited=False)
        rs = [n for n in walk_shallow(fn) if isinstance(n, ast.Return)]
        ok = len(rs) == 1 and rs[0].value is not None and unparse(rs[0].value) in shapes
        ctx.ob('R17.9', f'Quantity.{prop}', ok, sample=f'{prop} returns {short(rs[0].value) if rs else "-"}')
        if not ok:
            ctx.finding('R17.9', f'Quantity.{prop}', ci, fn, f'{prop} is not `{shapes[0]}`', where=f'Quantity.{prop}')
    # _val: same-class value built from the SI number alone (no unit argument, no arithmetic), display unit copied from self
    fn = prog.method('Quantity', '_val', inherited=False)
    sp = fn.args.args[1].arg
    builds = [n for n in walk_shallow(fn) if isinstance(n, ast.Call) and unparse(n.func) == 'type(self)']
    ok_build = len(builds) == 1 and len(builds[0].args) == 1 and not builds[0].keywords and unparse(builds[0].args[0]) == sp
    keeps = any(isinstance(n, ast.Assign) and isinstance(n.targets[0], ast.Attribute) and n.targets[0].attr == '_unit' and unparse(n.value) == 'self._unit' for n in walk_shallow(fn))
    arith = [n for n in walk_shallow(fn) if isinstance(n, ast.BinOp)]
    ok = ok_build and keeps and not arith
    if not ok:
        # by cases (E10): called with the SI value alone, every path builds type(self)(si) -- nothing else -- and copies the unit of self
        from .c16 import val_summary
        vs = val_summary(prog, 'Quantity', {sp})
        if isinstance(vs, list) and vs:
            ok_build = all(r['build'] == f'type(self)({sp})' for r in vs)
            keeps = all(r['attrs'].get('_unit') == 'self._unit' for r in vs)
            ok = ok_build and keeps
    ctx.ob('R17.9', 'Quantity._val', ok, sample=f'_val: built from the SI value alone {ok_build}; unit copied {keeps}; arithmetic {[short(a) for a in arith]}')
    if not ok:
        ctx.finding('R17.9', 'Quantity._val', ci, fn,
                    '_val (back end of neg, abs, +, -, scalar * and /) must build the result from the SI value without a unit argument and without arithmetic, then copy the '
                    'display unit: otherwise results depend on the unit factor (round trip si / f * f is not bit-exact)', where='Quantity._val')
    # as_unit: membership guard; copy built from self.si without unit argument; unit set to newunit
    fn = prog.method('Quantity', 'as_unit', inherited=False)
    nu = fn.args.args[1].arg
    guard = any(isinstance(n, ast.If) and unparse(n.test) in (f'not {nu} in self._units', f'{nu} not in self._units', f'not {nu} in type(self)._units')
                and any(isinstance(x, ast.Raise) for x in n.body) for n in walk_shallow(fn))
    builds = [n for n in walk_shallow(fn) if isinstance(n, ast.Call) and unparse(n.func) == 'type(self)']
    ok_build = len(builds) == 1 and len(builds[0].args) == 1 and not builds[0].keywords and unparse(builds[0].args[0]) in ('self.si', 'float(self)')
    sets = any(isinstance(n, ast.Assign) and isinstance(n.targets[0], ast.Attribute) and n.targets[0].attr == '_unit' and unparse(n.value) == nu
               for n in walk_shallow(fn))
    arith = [n for n in walk_shallow(fn) if isinstance(n, ast.BinOp) and not isinstance(n.op, ast.Mod)]
    ok = guard and ok_build and sets and not arith
    if guard and not arith and not ok:
        # as_unit may hand the work to _val: `return self._val(unit=<new unit>)` is right when _val, called with the unit only, builds
        # type(self)(float(self)) and stores that unit
        rs_ = [n for n in walk_shallow(fn) if isinstance(n, ast.Return) and n.value is not None]
        if len(rs_) == 1 and isinstance(rs_[0].value, ast.Call) and unparse(rs_[0].value.func) == 'self._val' and not rs_[0].value.args \
                and len(rs_[0].value.keywords) == 1 and unparse(rs_[0].value.keywords[0].value) == nu:
            from .c16 import val_summary
            kw = rs_[0].value.keywords[0].arg
            vs = val_summary(prog, 'Quantity', {kw})
            if isinstance(vs, list) and vs:
                ok_build = all(r['build'] in ('type(self)(float(self))', 'type(self)(self.si)') for r in vs)
                sets = all(r['attrs'].get('_unit') == kw for r in vs)
                ok = ok_build and sets
    if not ok and not arith:
        # by cases (E10): with a declared unit every path builds type(self)(<the SI value>) and stores the new unit on it; with an
        # undeclared unit every path raises
        from .c16 import val_summary
        from ..pathsum import PathSum, Unsupported as _U
        acc = val_summary(prog, 'Quantity', {nu}, mname='as_unit', extra_env={('bool', f'{nu} in self._units'): True})
        try:
            rej = PathSum(prog, 'Quantity', fn, {('isnone', nu): False, ('bool', f'{nu} in self._units'): False}, assume_validated=False).run()
        except _U:
            rej = None
        if isinstance(acc, list) and acc and rej is not None:
            guard = bool(rej) and all(o.kind == 'raise' for o in rej)
            ok_build = all(r['build'] in ('type(self)(float(self))', 'type(self)(self.si)') for r in acc)
            sets = all(r['attrs'].get('_unit') == nu for r in acc)
            ok = guard and ok_build and sets
    ctx.ob('R17.9', 'Quantity.as_unit', ok, sample=f'as_unit: guard {guard}, copy from SI value without unit {ok_build}, no arithmetic {not arith}')
    if not ok:
        ctx.finding('R17.9', 'Quantity.as_unit', ci, fn,
                    'as_unit must check the unit, rebuild from the SI value with no unit argument (bit-identical SI) and only set the display unit',
                    where='Quantity.as_unit')
