"""C05 -- fault containment: a failing handler never loses, duplicates or reorders events (DESIGN §3-C05)."""
from .. import simrules as S

EXPLANATION = (
    "The except-branch around event.execute() in the run loop is evaluated by finite-domain guard evaluation under each "
    "of the five ErrorStrategy values, producing per strategy the set of effects on the loop (state writes, event-list "
    "calls, control transfers, cleanup/exit): the continue strategies must have none, the pause strategy exactly "
    "run_state := STOPPING, and the loop head must re-read the state before the next pop; the handler must catch "
    "Exception and SimEvent.execute must wrap every handler error. With the typestate rule R2.1 (exception edges "
    "included) every other event still runs exactly once and in order. For step(): try/finally pairing on exceptional "
    "paths and a local type rule (str + caught exception object is a TypeError on every execution).")


def run(ctx):
    ctx.uses('simulator', 'simevent')
    # first: state shared between simulator objects (it makes every later anchor meaningless, so it is reported even when they vanish)
    S.shared_state(ctx, None, 'R5.5')
    sc = S.SimCtx(ctx.prog)
    S.r51_strategy_table(ctx, sc)
    S.r52_handler_cannot_raise(ctx, sc)
    S.r53_step_finally(ctx, sc)
    S.r54_strategy_setter(ctx, sc)
    S.settings_persist(ctx, sc, 'R5.7')
    S.r21_typestate(ctx, sc)
    S.exception_text_total(ctx, 'R5.6')
    # resuming after a pause executes the remaining events only if the wake-up of the resumed run is not lost (shared rule with C04)
    S.r44_wait_clear(ctx, sc)
    # "every other event is still executed, in order", also for events cancelled and scheduled while paused: the event list hands out the
    # pending minimum after every removal (heap discipline and observers: shared rules with C01)
    from . import c01
    ctx.uses('eventlist')
    for cname_ in ctx.prog.subclasses('EventListInterface'):
        c01.check_eventlist(ctx, cname_)
