"""C07 -- end-to-end reproducibility: a run is a function of model, seeds and settings (DESIGN §3-C07)."""
from __future__ import annotations

import ast

from ..cfg import CFG
from ..core import AnalysisError, body_of, is_self_attr, short, unparse, walk_shallow
from ..simrules import SIM, SimCtx, find_run_loop
from . import c01, c08

EXPLANATION = (
    "Effect analysis excluding the known sources of run-to-run variation from the whole package (a superset of what is "
    "reachable from a run): builtin hash()/id(); iteration over / conversion of set-typed values; module-level "
    "random.* functions, os.urandom, uuid, secrets; wall-clock reads whose value flows anywhere but a loop-timeout "
    "comparison (one allow-listed site: the explicitly unseeded MersenneTwister); iteration over dicts not keyed by "
    "str outside an order-insensitive allow-list. Listener containers are lists iterated in order (R8.1/R8.2); event "
    "ids are used ordinally only (comparisons, heap key, text) so absolute counter values inherited from earlier work "
    "cannot matter; _run keeps no loop-carried local state, so pausing and resuming re-enters it without loss. This "
    "excludes the known sources; it does not prove bit-identity across processes as such.")

ALLOW_TIME = {
    ('MersenneTwister', '__init__'): 'only on the explicitly unseeded path (seed is None); StreamInformation seeds its default stream with the literal 10',
}
ALLOW_DICT_ITER = {
    ('EventProducer', 'remove_all_listeners'): 'removes every entry: order-insensitive',
    ('EventType', '__init__'): 'validates every metadata entry: order-insensitive',
    ('Event', '__init__'): 'validates every metadata entry: order-insensitive',
    ('StreamSeedUpdater', '__init__'): 'validates every entry: order-insensitive',
}


def run(ctx):
    prog = ctx.prog
    ctx.uses(*prog.modules)
    ctx.trust('dict and list iteration order = insertion order (language guarantee); C12/C13 for the streams themselves')
    # first: two simulators in one process must not influence each other's order (reported even when later anchors vanish because of it)
    from .. import simrules as _S
    _S.shared_state(ctx, None, 'R7.8')
    r71_sources(ctx)
    # the seeds of a replication depend on nothing but stream name, original seed / configured list and replication number -- in particular
    # not on how the stream objects were used earlier in the process (shared rules with C13)
    from . import c13
    for c_ in [c for c in prog.subclasses('StreamUpdater') if 'update_seed' in prog.classes[c].methods]:
        c13.check_updater(ctx, c_)
    ctx.rule('R7.2', 'listeners are kept in lists, appended once, and notified by iterating (a copy of) the list in order')
    c08.r81(ctx)
    # the model's streams are objects of their own: a stream (or a copy of one) never draws from another stream's generator (shared with C12)
    from . import c12
    for sc_ in ctx.prog.subclasses('StreamInterface'):
        c12.r121_private_generator(ctx, sc_)
    # a value a distribution buffers between draws (the second gaussian of a pair) is dropped whenever a stream is assigned, also the same
    # stream again after re-seeding: otherwise a replication starts with a number left over from the one before (shared rule with C14)
    from . import c14
    ctx.uses('distributions')
    c14.r143(ctx, c14.concrete_dists(ctx.prog))
    c08.r82(ctx)
    r73_ids_ordinal(ctx)
    # ids must also increase strictly in creation order for the whole process (shared rule with C01): a counter that can be
    # reset makes the tie-break between equal-time, equal-priority events depend on earlier activity
    c01.r14_counter(ctx)
    r74_dict_iteration(ctx)
    r75_no_loop_carried_state(ctx)
    # independence of wall-clock speed: the only place where two threads could both act on the model is the start hand-over
    from .. import simrules as S
    S.wakeup_last(ctx, S.SimCtx(prog), 'R7.6')
    # independence of where the run was paused: no notification exists only because of a pause
    S.time_changed_sites(ctx, S.SimCtx(prog), 'R7.7')
    # independence of where the run was paused: a pause may not lose or repeat an event -- every popped event is executed exactly once
    # on every path, including the path on which the run notices the stop request (shared rule with C02)
    S.r21_typestate(ctx, S.SimCtx(prog))
    # ... nor repeat a notification: the replication start is announced once, on the first start only, however often the run is resumed
    # (listeners that schedule their first event or draw numbers on it would run again at every pause) (shared rule with C04 / C06)
    S.r43_notifications(ctx, S.SimCtx(prog))
    # two simulators in one process must not influence each other's order


def set_typed_names(prog):
    """(class or None, attribute/variable name) known to hold a set"""
    out = set()
    for ci in prog.classes.values():
        for st in ci.node.body:
            if isinstance(st, ast.AnnAssign) and isinstance(st.target, ast.Name) and 'set' in unparse(st.annotation).lower().split('[')[0]:
                out.add(st.target.id)
        for (name, v, st) in ci.all_assigns:
            if isinstance(v, (ast.Set, ast.SetComp)) or (isinstance(v, ast.Call) and unparse(v.func) in ('set', 'frozenset')):
                out.add(name)
    for oc, fn, mod in prog.functions():
        for st in walk_shallow(fn):
            tg, v, ann = [], None, None
            if isinstance(st, ast.Assign):
                tg, v = st.targets, st.value
            elif isinstance(st, ast.AnnAssign):
                tg, v, ann = [st.target], st.value, st.annotation
            for t in tg:
                is_set = (v is not None and (isinstance(v, (ast.Set, ast.SetComp)) or (isinstance(v, ast.Call) and unparse(v.func) in ('set', 'frozenset')))) \
                    or (ann is not None and unparse(ann).lower().split('[')[0] in ('set', 'frozenset', 'typing.set'))
                if is_set:
                    if isinstance(t, ast.Attribute):
                        out.add(t.attr)
                    elif isinstance(t, ast.Name):
                        out.add(t.id)
    return out


def _is_key_position(p_, x):
    """x sits where only its equality with other keys matters: d[x], d.get / pop / setdefault(x, ..), x in d, {x: ..}"""
    return (isinstance(p_, ast.Subscript) and p_.slice is x) \
        or (isinstance(p_, ast.Call) and isinstance(p_.func, ast.Attribute) and p_.func.attr in ('get', 'pop', 'setdefault') and p_.args and p_.args[0] is x) \
        or (isinstance(p_, ast.Compare) and p_.left is x and all(isinstance(o, (ast.In, ast.NotIn)) for o in p_.ops)) \
        or (isinstance(p_, ast.Dict) and any(k is x for k in p_.keys))


def _name_is_key_only(prog, oc, fn, name, depth=0):
    """every read of the local / parameter `name` in fn (nested lambdas and functions included) is a lookup-key position, or hands the value on
    as a positional argument of a method of the same class whose parameter is again key-only; the name is bound once"""
    pm = {}
    for p in ast.walk(fn):
        for ch in ast.iter_child_nodes(p):
            pm[id(ch)] = p
    loads = [n for n in ast.walk(fn) if isinstance(n, ast.Name) and n.id == name and isinstance(n.ctx, ast.Load)]
    stores = [n for n in ast.walk(fn) if isinstance(n, ast.Name) and n.id == name and isinstance(n.ctx, (ast.Store, ast.Del))]
    is_param = any(a.arg == name for a in fn.args.posonlyargs + fn.args.args + fn.args.kwonlyargs)
    if len(stores) != (0 if is_param else 1) or not loads:
        return False
    for n in loads:
        p_ = pm.get(id(n))
        if _is_key_position(p_, n):
            continue
        if isinstance(p_, ast.Call) and n in p_.args and depth < 2 and oc is not None and isinstance(p_.func, ast.Attribute) \
                and unparse(p_.func.value) in ('self', oc.name, 'type(self)', 'cls') and not any(isinstance(a, ast.Starred) for a in p_.args):
            r = prog.resolve(oc.name, p_.func.attr)
            if r and r[1] is not None:
                f2 = r[1]
                static = any(unparse(d) == 'staticmethod' for d in f2.decorator_list)
                params = [a.arg for a in f2.args.posonlyargs + f2.args.args][0 if static else 1:]
                i = p_.args.index(n)
                if i < len(params) and _name_is_key_only(prog, r[0], f2, params[i], depth + 1):
                    continue
        return False
    return True


def _id_bound_to_key_only_local(prog, oc, fn, call, pm):
    """`k = id(x)` / `a, k = .., id(x)`: the id is bound to a local that is key-only (see above)"""
    p_ = pm.get(id(call))
    target = None
    if isinstance(p_, ast.Assign) and p_.value is call and len(p_.targets) == 1 and isinstance(p_.targets[0], ast.Name):
        target = p_.targets[0].id
    elif isinstance(p_, ast.Tuple) and isinstance(pm.get(id(p_)), ast.Assign):
        a_ = pm.get(id(p_))
        if a_.value is p_ and len(a_.targets) == 1 and isinstance(a_.targets[0], ast.Tuple) and len(a_.targets[0].elts) == len(p_.elts):
            t_ = a_.targets[0].elts[p_.elts.index(call)]
            if isinstance(t_, ast.Name):
                target = t_.id
    return target is not None and _name_is_key_only(prog, oc, fn, target)


def r71_sources(ctx):
    prog = ctx.prog
    ctx.rule('R7.1', 'no nondeterminism source in the package: hash()/id(), set iteration, global random functions, os.urandom/uuid/secrets, wall clock outside loop timeouts')
    sets = set_typed_names(prog)
    from ..core import mangle
    for ci in prog.classes.values():
        for st in ci.node.body:
            if isinstance(st, ast.AnnAssign) and isinstance(st.target, ast.Name) and st.target.id in sets:
                sets.add(mangle(ci.name, st.target.id))
    counts = {'hash/id': 0, 'set-iteration': 0, 'global-random': 0, 'entropy': 0, 'wall-clock': 0}
    n_fn = 0
    for oc, fn, mod in prog.functions():
        n_fn += 1
        where_ = f'{oc.name}.{fn.name}' if oc else f'{mod.name}.{fn.name}'
        pm = {}
        for p in ast.walk(fn):
            for ch in ast.iter_child_nodes(p):
                pm[id(ch)] = p
        gsets = sets
        local_sets = {t.id for st in walk_shallow(fn) if isinstance(st, ast.Assign) and _is_set_expr(st.value, gsets)
                      for t in st.targets if isinstance(t, ast.Name)}
        sets = gsets | local_sets
        for x in walk_shallow(fn):
            if isinstance(x, ast.Call):
                f = unparse(x.func)
                if f in ('hash', 'id') and isinstance(x.func, ast.Name):
                    counts['hash/id'] += 1
                    # uses in which only the EQUALITY of the numbers matters, never their values or their order:
                    #   hash(..) returned by a __hash__ method (the protocol: dict / set lookups of this object);
                    #   id(..) as the key of a lookup (subscript / get / pop / in) in a dict -- an identity index;
                    #   id(..) / hash(..) inside the text of a message (f-string, % / format argument)
                    p_ = pm.get(id(x))
                    harmless = None
                    if f == 'hash' and fn.name == '__hash__' and isinstance(p_, ast.Return):
                        harmless = 'the value a __hash__ method returns (hash protocol)'
                    elif f == 'id' and ((isinstance(p_, ast.Subscript) and p_.slice is x) or (isinstance(p_, ast.Call) and isinstance(p_.func, ast.Attribute)
                                        and p_.func.attr in ('get', 'pop', 'setdefault') and p_.args and p_.args[0] is x)
                                        or (isinstance(p_, ast.Compare) and p_.left is x and all(isinstance(o, (ast.In, ast.NotIn)) for o in p_.ops))
                                        or (isinstance(p_, ast.Dict) and any(k is x for k in p_.keys))):
                        harmless = 'a lookup key (identity index): only equality of ids matters'
                    elif f == 'id' and _id_bound_to_key_only_local(prog, oc, fn, x, pm):
                        harmless = 'bound to a local that is only ever a lookup key (identity index): only equality of ids matters'
                    elif isinstance(p_, ast.FormattedValue) or (isinstance(p_, ast.Call) and unparse(p_.func) in ('hex', 'str', 'repr') and isinstance(pm.get(id(p_)), ast.FormattedValue)):
                        harmless = 'part of a message text'
                    if harmless:
                        ctx.ob('R7.1', f'{where_}:{f}', True, sample=f'{where_}: {short(x)} is {harmless}')
                        continue
                    ctx.ob('R7.1', f'{where_}:{f}', False)
                    ctx.finding('R7.1', f'{where_}:{f}', oc, x,
                                f'`{short(x)}`: builtin {f}() varies from process to process ' + ('(string hashing is salted by PYTHONHASHSEED)' if f == 'hash' else '(object identity)')
                                + '; any result derived from it is not reproducible', where=where_, module=mod)
                elif isinstance(x.func, ast.Attribute) and isinstance(x.func.value, ast.Name) and x.func.value.id == 'random' and x.func.attr != 'Random':
                    counts['global-random'] += 1
                    ctx.ob('R7.1', f'{where_}:random.{x.func.attr}', False)
                    ctx.finding('R7.1', f'{where_}:random.{x.func.attr}', oc, x, f'`{short(x)}` uses the process-global random generator', where=where_, module=mod)
                elif f in ('os.urandom', 'uuid.uuid1', 'uuid.uuid4', 'secrets.token_bytes', 'secrets.randbits', 'secrets.token_hex', 'secrets.choice') or f.startswith('secrets.'):
                    counts['entropy'] += 1
                    ctx.ob('R7.1', f'{where_}:{f}', False)
                    ctx.finding('R7.1', f'{where_}:{f}', oc, x, f'`{short(x)}` reads OS entropy', where=where_, module=mod)
                elif f in ('time.time', 'time.perf_counter', 'time.monotonic', 'time.time_ns', 'datetime.now', 'datetime.datetime.now', 'time.process_time', 'datetime.utcnow'):
                    counts['wall-clock'] += 1
                    why = clock_use(fn, x, pm)
                    allow = ALLOW_TIME.get((oc.name if oc else mod.name, fn.name))
                    ok = why is not None or allow is not None
                    ctx.ob('R7.1', f'{where_}:{f}', ok, sample=f'{where_}: {f}() -- {why or ("allow-listed: " + allow if allow else "value escapes")}')
                    if not ok:
                        ctx.finding('R7.1', f'{where_}:{f}', oc, x, f'the wall clock `{short(x)}` flows into program state instead of only bounding a wait loop: results depend on execution speed',
                                    where=where_, module=mod)
                elif f in ('list', 'tuple', 'sorted', 'iter', 'next', 'enumerate') and x.args and _is_set_expr(x.args[0], sets) and f != 'sorted':
                    counts['set-iteration'] += 1
                    ctx.ob('R7.1', f'{where_}:{f}(set)', False)
                    ctx.finding('R7.1', f'{where_}:{f}({unparse(x.args[0])})', oc, x, f'`{short(x)}` enumerates a set: the order depends on hash values', where=where_, module=mod)
                elif isinstance(x.func, ast.Attribute) and x.func.attr == 'pop' and not x.args and _is_set_expr(x.func.value, sets):
                    counts['set-iteration'] += 1
                    ctx.ob('R7.1', f'{where_}:set.pop', False)
                    ctx.finding('R7.1', f'{where_}:{unparse(x.func.value)}.pop', oc, x, f'`{short(x)}` pops an arbitrary element of a set', where=where_, module=mod)
            elif isinstance(x, (ast.For, ast.comprehension)) and _is_set_expr(x.iter, sets):
                counts['set-iteration'] += 1
                ctx.ob('R7.1', f'{where_}:for-in-set', False)
                ctx.finding('R7.1', f'{where_}:iterate:{unparse(x.iter)}', oc, x.iter, f'iteration over the set `{unparse(x.iter)}`: the order depends on hash values / object identities',
                            where=where_, module=mod)
        sets = gsets
    # imports of entropy modules
    for mname, mod in prog.modules.items():
        for st in ast.walk(mod.tree):
            if isinstance(st, ast.ImportFrom) and st.module == 'random':
                for a in st.names:
                    ok = a.name == 'Random'
                    ctx.ob('R7.1', f'{mname}:from random import {a.name}', ok)
                    if not ok:
                        ctx.finding('R7.1', f'{mname}:import-random-{a.name}', None, st, f'`from random import {a.name}`: process-global generator function', module=mod, where=mname)
    ctx.ob('R7.1', 'package-scan', True, sample=f'scanned {n_fn} functions; constructs seen {counts}; set-typed names {sorted(sets)[:8]}')
    ctx.floor('R7.1', 'functions scanned', n_fn, 600)
    ctx.extra['nondeterminism_scan'] = counts


def _is_keys_view(e):
    return isinstance(e, ast.Call) and isinstance(e.func, ast.Attribute) and e.func.attr in ('keys', 'items') and not e.args


def _is_set_expr(e, sets, depth=0):
    if isinstance(e, (ast.Set, ast.SetComp)):
        return True
    if isinstance(e, ast.Call) and unparse(e.func) in ('set', 'frozenset'):
        return True
    # set algebra on dict key views (d.keys() & other, d.keys() - other, ...) yields a plain set
    if isinstance(e, ast.BinOp) and isinstance(e.op, (ast.BitAnd, ast.BitOr, ast.Sub, ast.BitXor)) and depth < 4:
        if any(_is_keys_view(x) or _is_set_expr(x, sets, depth + 1) for x in (e.left, e.right)):
            return True
    if isinstance(e, ast.Call) and isinstance(e.func, ast.Attribute) and e.func.attr in ('union', 'intersection', 'difference', 'symmetric_difference') \
            and depth < 4 and (_is_keys_view(e.func.value) or _is_set_expr(e.func.value, sets, depth + 1)):
        return True
    if isinstance(e, ast.Attribute) and e.attr in sets:
        return True
    if isinstance(e, ast.Name) and e.id in sets:
        return True
    return False


def clock_use(fn, call, pm):
    """reason why this wall-clock read is harmless (only bounds a wait loop), or None"""
    p = pm.get(id(call))
    chain = []
    while p is not None and not isinstance(p, ast.stmt):
        chain.append(p)
        p = pm.get(id(p))
    if isinstance(p, ast.While) and any(c is p.test or True for c in chain) and any(x is call for x in ast.walk(p.test)):
        return 'inside a while-condition (timeout)'
    if isinstance(p, (ast.Assign, ast.AnnAssign)):
        tg = p.targets if isinstance(p, ast.Assign) else [p.target]
        if len(tg) == 1 and isinstance(tg[0], ast.Name):
            name = tg[0].id
            uses = [x for x in ast.walk(fn) if isinstance(x, ast.Name) and x.id == name and isinstance(x.ctx, ast.Load)]
            ok = bool(uses)
            for u in uses:
                q = pm.get(id(u))
                while q is not None and not isinstance(q, ast.stmt):
                    q = pm.get(id(q))
                if not (isinstance(q, ast.While) and any(x is u for x in ast.walk(q.test))):
                    ok = False
            if ok:
                return f'stored in local `{name}` that is read only in while-conditions (timeout)'
    return None


def r73_ids_ordinal(ctx):
    prog = ctx.prog
    ctx.rule('R7.3', 'event ids are used ordinally only (comparisons, heap key, text), never in arithmetic, hashing, indexing or as dict keys')
    r = prog.simple_return('SimEvent', 'id')
    if r is None or not is_self_attr(r):
        raise AnalysisError('anchor vanished: SimEvent.id')
    idf = r.attr
    n = 0
    for oc, fn, mod in prog.functions():
        if mod.name not in ('simevent', 'eventlist', 'simulator'):
            continue
        pm = {}
        for p in ast.walk(fn):
            for ch in ast.iter_child_nodes(p):
                pm[id(ch)] = p
        for x in walk_shallow(fn):
            if not (isinstance(x, ast.Attribute) and x.attr in (idf, 'id') and isinstance(x.ctx, ast.Load)):
                continue
            if x.attr == 'id' and not (oc is not None and oc.name in ('EventListHeap', 'DEVSSimulator', 'Simulator', 'SimEvent')):
                continue
            n += 1
            p = pm.get(id(x))
            where_ = f'{oc.name}.{fn.name}' if oc else fn.name
            ok = isinstance(p, (ast.Compare, ast.Return, ast.Tuple, ast.FormattedValue)) or \
                (isinstance(p, ast.Call) and unparse(p.func) in ('str', 'repr', 'format'))
            # as the KEY of a lookup table of the object (dict / set field: `self.T[id]`, `self.T.get(id)`, `id in self.T`) only the equality of
            # ids matters, not their values (iterating such a table is R7.4's concern)
            if not ok and isinstance(p, ast.Subscript) and p.slice is x and is_self_attr(p.value):
                ok = True
            if not ok and isinstance(p, ast.Call) and isinstance(p.func, ast.Attribute) and is_self_attr(p.func.value) and p.args and p.args[0] is x \
                    and p.func.attr in ('get', 'pop', 'setdefault', 'add', 'discard', 'remove', '__contains__'):
                ok = True
            # moving the id counter forward to an id made elsewhere (`if self._id > counter: counter = self._id`, un-pickling): ids keep
            # increasing in creation order, which is all their values are used for (the store itself is R1.4's concern)
            if not ok and isinstance(p, ast.Assign) and p.value is x and len(p.targets) == 1 and isinstance(p.targets[0], ast.Attribute):
                from .c01 import _monotone_counter_store
                if _monotone_counter_store(fn, p.targets[0], p.targets[0].attr.replace('_SimEvent', '')):
                    ok = True
            ctx.ob('R7.3', f'{where_}:{unparse(x)}', ok, sample=f'{where_}: {unparse(x)} used in {type(p).__name__}')
            if not ok:
                ctx.finding('R7.3', f'{where_}:{unparse(x)}:{type(p).__name__}', oc, x,
                            f'event id `{unparse(x)}` is used in a {type(p).__name__} (`{short(p)}`): behaviour would depend on the absolute value of the process-wide event counter',
                            where=where_, module=mod)
    ctx.floor('R7.3', 'uses of the event id', n, 6)


def r74_dict_iteration(ctx):
    prog = ctx.prog
    ctx.rule('R7.4', 'dicts are iterated only when keyed by str (insertion order is then a function of the program) or in order-insensitive, allow-listed loops')
    n = 0
    for oc, fn, mod in prog.functions():
        for x in walk_shallow(fn):
            it = x.iter if isinstance(x, (ast.For, ast.comprehension)) else None
            if it is None:
                continue
            base = it
            if isinstance(base, ast.Call) and unparse(base.func) in ('list', 'tuple', 'sorted', 'enumerate') and base.args:
                base = base.args[0]
            if not (isinstance(base, ast.Call) and isinstance(base.func, ast.Attribute) and base.func.attr in ('keys', 'items', 'values')):
                continue
            n += 1
            where_ = f'{oc.name}.{fn.name}' if oc else fn.name
            d = base.func.value
            ann = dict_key_annotation(prog, oc, fn, d)
            allow = ALLOW_DICT_ITER.get((oc.name if oc else mod.name, fn.name))
            ok = ann == 'str' or allow is not None
            ctx.ob('R7.4', f'{where_}:{unparse(d)}', ok, sample=f'{where_}: iterates {unparse(it)} -- ' + (f'keys are {ann}' if ann == 'str' else f'allow-listed: {allow}' if allow else f'key type {ann}'))
            if not ok:
                ctx.finding('R7.4', f'{where_}:{unparse(d)}', oc, it, f'iteration over `{unparse(it)}` whose keys are not known to be str: with object keys the effects of the loop may depend on insertion '
                            f'history in ways the seeds do not control', where=where_, module=mod)
    ctx.floor('R7.4', 'dict iterations', n, 5)


def dict_key_annotation(prog, oc, fn, d):
    """'str' when the dict expression is annotated Dict[str, ...] (parameter, field or local)"""
    t = None
    if isinstance(d, ast.Name):
        for a in fn.args.args + fn.args.kwonlyargs:
            if a.arg == d.id and a.annotation is not None:
                t = unparse(a.annotation)
    elif isinstance(d, ast.Attribute) and oc is not None:
        for c in prog.mro(oc.name):
            ci = prog.classes.get(c)
            if ci is None:
                continue
            for f2 in ci.methods.values():
                for st in walk_shallow(f2):
                    if isinstance(st, ast.AnnAssign) and isinstance(st.target, ast.Attribute) and st.target.attr == d.attr:
                        t = unparse(st.annotation)
    if t is None:
        return None
    tl = t.replace(' ', '')
    if tl.startswith(('Dict[str,', 'dict[str,', 'typing.Dict[str,')):
        return 'str'
    return tl


def r75_no_loop_carried_state(ctx):
    prog = ctx.prog
    ctx.rule('R7.5', '_run keeps no state in locals across iterations or calls: every local read in the loop is assigned earlier in the same iteration')
    sc = SimCtx(prog)
    dc, fn, loop = find_run_loop(sc)
    before = [s for s in body_of(fn) if s is not loop and s.lineno < loop.lineno]
    pre_locals = set()
    for s in before:
        for x in ast.walk(s):
            if isinstance(x, ast.Name) and isinstance(x.ctx, ast.Store):
                pre_locals.add(x.id)
    problems = []

    def reads(e):
        return [x for x in ast.walk(e) if isinstance(x, ast.Name) and isinstance(x.ctx, ast.Load)]

    params = {a.arg for a in fn.args.args}
    module_names = set(prog.classes) | {'logger', 'sys', 'traceback', 'isinstance', 'print', 'str', 'len', 'int', 'float', 'Exception', 'DSOLError'}

    def walk(stmts, defined):
        for s in stmts:
            if isinstance(s, ast.If):
                for x in reads(s.test):
                    check(x, defined)
                d1 = walk(s.body, set(defined))
                d2 = walk(s.orelse, set(defined))
                ends1 = bool(s.body) and isinstance(s.body[-1], (ast.Return, ast.Raise, ast.Break, ast.Continue))
                ends2 = bool(s.orelse) and isinstance(s.orelse[-1], (ast.Return, ast.Raise, ast.Break, ast.Continue))
                defined = d2 if ends1 else d1 if ends2 else (d1 & d2)
            elif isinstance(s, ast.Try):
                d1 = walk(s.body, set(defined))
                for h in s.handlers:
                    hd = set(defined)
                    if h.name:
                        hd.add(h.name)
                    walk(h.body, hd)
                defined = walk(s.finalbody, defined) if s.finalbody else defined
            elif isinstance(s, (ast.For, ast.While, ast.With)):
                for x in reads(s.iter if isinstance(s, ast.For) else s.test if isinstance(s, ast.While) else s.items[0].context_expr):
                    check(x, defined)
                d = set(defined)
                if isinstance(s, ast.For):
                    d |= {x.id for x in ast.walk(s.target) if isinstance(x, ast.Name)}
                walk(s.body, d)
            else:
                val = getattr(s, 'value', None)
                for x in (reads(val) if val is not None else reads(s) if not isinstance(s, (ast.Assign, ast.AnnAssign, ast.AugAssign)) else []):
                    check(x, defined)
                if isinstance(s, ast.AugAssign):
                    for x in reads(s.target) + [y for y in ast.walk(s.target) if isinstance(y, ast.Name)]:
                        check(x, defined)
                for t in (s.targets if isinstance(s, ast.Assign) else [s.target] if isinstance(s, (ast.AnnAssign, ast.AugAssign)) else []):
                    for x in ast.walk(t):
                        if isinstance(x, ast.Name):
                            defined.add(x.id)
                        elif isinstance(x, (ast.Attribute, ast.Subscript)):
                            for y in reads(x):
                                check(y, defined)
        return defined

    def check(x, defined):
        if x.id in defined or x.id in params or x.id in module_names or x.id in dir(__builtins__) or x.id in ('self',):
            return
        if x.id in pre_locals:
            problems.append((x, f'local `{x.id}` is assigned before the loop and read inside it'))
        else:
            problems.append((x, f'local `{x.id}` is read in the loop before being assigned in the same iteration'))
    for x in reads(loop.test):
        check(x, set())
    walk(loop.body, set())
    # module-level names that are not locals: filter names never assigned in the function at all
    assigned_anywhere = {x.id for x in ast.walk(fn) if isinstance(x, ast.Name) and isinstance(x.ctx, ast.Store)}
    problems = [(x, m) for (x, m) in problems if x.id in assigned_anywhere]
    ok = not problems
    ctx.ob('R7.5', 'DEVSSimulator._run', ok, sample=f'_run: locals assigned before the loop {sorted(pre_locals)}; loop-carried reads: {[m for _, m in problems]}')
    for (x, m) in problems[:3]:
        ctx.finding('R7.5', f'DEVSSimulator._run:{x.id}', dc, x, m + ': a pause re-enters _run from its first line, so state kept in locals is lost or stale and the resumed run differs from an uninterrupted one',
                    where='DEVSSimulator._run')
