"""C15 -- density / probability / cumulative functions: total, non-negative, zero outside the support (DESIGN §3-C15)."""
from __future__ import annotations

import ast

from .. import itv as I
from .. import numrules as N
from ..core import AnalysisError, short, unparse
from ..itv import Itv
from ..numeric import Analyser, Program
from .c14 import EXPR_AXIOMS, concrete_dists

EXPLANATION = (
    "Narrow claim. Numeric abstract interpretation of every probability_density / probability / "
    "cumulative_probability(_not_truncated) function with a free argument and the field invariants established by the "
    "constructor: every arithmetic sink is proved unable to raise (evaluability for every argument); every density / "
    "probability is non-negative on every return path; outside the documented support (transcribed per class into the "
    "checker) every reachable return is exactly 0 (cumulative functions: 0 below, 1 above); the inverse functions guard "
    "their domain (erf_inv's rational branches and the truncated-normal inverse). For the three families that publish a "
    "cumulative function (Normal, truncated Normal, LogNormal) two clauses of the statistical core are decided by exact "
    "rational-function algebra over erf / erf_inv / exp / log / sqrt atoms with the constructor-defined fields "
    "substituted: cumulative_probability and inverse_cumulative_probability are mutually inverse real functions on every "
    "computed return path (R15.4), and the density is the derivative of the cumulative function (R15.5, symbolic "
    "differentiation). NOT decided: that samples follow the density, that the densities without a published cdf "
    "integrate to one, and the numerical accuracy of erf_inv; these are statements about numerical values that no static "
    "argument in reach bounds.")

FUNCS = ('probability_density', 'probability', 'cumulative_probability', 'cumulative_probability_not_truncated')

# documented supports: class -> list of (function, side, bound, expected constant)
#   bound: ('const', value, strict)  : argument <  value (strict) / <= value (not strict) on the 'below' side, > / >= on the 'above' side
#          ('field', name, strict)   : same against a field of the instance
BELOW, ABOVE = 'below', 'above'
SUPPORT = {
    'DistBernoulli': [('probability', BELOW, ('const', 0, True), 0.0), ('probability', ABOVE, ('const', 1, True), 0.0)],
    'DistBeta': [('probability_density', BELOW, ('const', 0.0, False), 0.0), ('probability_density', ABOVE, ('const', 1.0, False), 0.0)],
    'DistBinomial': [('probability', BELOW, ('const', 0, True), 0.0), ('probability', ABOVE, ('field', '_n', True), 0.0)],
    'DistDiscreteUniform': [('probability', BELOW, ('field', '_lo', True), 0.0), ('probability', ABOVE, ('field', '_hi', True), 0.0)],
    'DistErlang': [('probability_density', BELOW, ('const', 0.0, True), 0.0)],
    'DistExponential': [('probability_density', BELOW, ('const', 0.0, True), 0.0)],
    'DistGamma': [('probability_density', BELOW, ('const', 0.0, False), 0.0)],
    'DistGeometric': [('probability', BELOW, ('const', 0, True), 0.0)],
    'DistNegBinomial': [('probability', BELOW, ('const', 0, True), 0.0)],
    'DistPoisson': [('probability', BELOW, ('const', 0, True), 0.0)],
    'DistNormalTrunc': [('probability_density', BELOW, ('field', '_lo', True), 0.0), ('probability_density', ABOVE, ('field', '_hi', True), 0.0),
                        ('cumulative_probability', BELOW, ('field', '_lo', True), 0.0), ('cumulative_probability', ABOVE, ('field', '_hi', True), 1.0)],
    'DistLogNormal': [('probability_density', BELOW, ('const', 0.0, False), 0.0), ('cumulative_probability', BELOW, ('const', 0.0, False), 0.0)],
    'DistPearson5': [('probability_density', BELOW, ('const', 0.0, False), 0.0)],
    'DistPearson6': [('probability_density', BELOW, ('const', 0.0, False), 0.0)],
    'DistTriangular': [('probability_density', BELOW, ('field', '_lo', True), 0.0), ('probability_density', ABOVE, ('field', '_hi', True), 0.0)],
    'DistUniform': [('probability_density', BELOW, ('field', '_lo', True), 0.0), ('probability_density', ABOVE, ('field', '_hi', True), 0.0)],
    'DistWeibull': [('probability_density', BELOW, ('const', 0.0, False), 0.0)],
}
NO_SUPPORT_BOUND = {'DistNormal': 'support is the whole real line', 'DistConstant': 'point mass (density is an indicator of x == constant)'}


def run(ctx):
    prog = ctx.prog
    ctx.uses('distributions', 'utils', 'streams')
    dists = concrete_dists(prog)
    ctx.floor('R15', 'concrete distributions', len(dists), 19)
    # first: what a distribution declares must be a function of its own parameters -- a memo, table or helper object shared by all objects of
    # the class answers for whichever object filled it first (shared rule with C14)
    from ..statrules import memo_soundness
    memo_soundness(ctx, 'R15.9', ['distributions', 'utils'])
    from ..statrules import shared_class_state
    shared_class_state(ctx, 'R15.8', sorted(c for c, ci in prog.classes.items() if ci.module.name == 'distributions'),
                       'the densities / probabilities one distribution declares are those another one computed: they no longer match its own parameters and draws')
    ctx.assume('arguments and constructor parameters are finite numbers; real-number semantics without overflow or rounding')
    ctx.trust('my transcription of the documented supports into the checker table (from the class docstrings)')
    targets = []
    for c in dists:
        ms = [m for m in FUNCS if prog.resolve(c, m)[1] is not None and prog.resolve(c, m)[0].module.name == 'distributions'
              and not any(unparse(d) == 'abstractmethod' for d in prog.resolve(c, m)[1].decorator_list)]
        if ms:
            targets.append((c, ms))
    ctx.rule('R15.1', 'every density / probability / cumulative function is total for every argument, and densities / probabilities are >= 0 on every return')
    an, ranges = N.run_totality(ctx, 'R15.1', {'distributions', 'utils', 'streams'}, targets, depth=8, what='a density / probability / cdf evaluation',
                                expr_axioms=EXPR_AXIOMS)
    ctx.floor('R15.1', 'arithmetic sinks analysed', ctx.extra['numeric']['R15.1']['sinks'], 45)
    nfun = 0
    for (c, ms) in targets:
        for m in ms:
            nfun += 1
            if m in ('probability_density', 'probability'):
                iv = ranges[(c, m)]
                ok = iv is not None and iv.ge0() and not iv.nan
                ctx.ob('R15.1', f'{c}.{m}:sign', ok, sample=f'{c}.{m}(x) in {iv}')
                if not ok:
                    dc, fn = prog.resolve(c, m)
                    ctx.finding('R15.1', f'{c}.{m}:negative', dc, fn, f'{m} of {c} is only known to lie in {iv}: a density / probability can be negative or NaN', where=f'{dc.name}.{m}')
    ctx.floor('R15.1', 'density/probability/cdf functions', nfun, 21)
    r152(ctx, dists)
    r153(ctx)
    r1510_odd_erf_inv(ctx)
    r1511_composed_samplers(ctx)
    # the discrete uniform sampler IS the stream's next_int: declared probabilities match the draws only if next_int is exact for every
    # range (shared rules with C12)
    from . import c12
    for sc_ in prog.subclasses('StreamInterface'):
        c12.check_stream(ctx, sc_)
    r154_inverse_pairs(ctx, dists)
    r155_density_is_derivative(ctx, dists)
    r156_erf_inv_centres(ctx)
    r157_draw_by_inversion(ctx, dists)
    # a sampler that leaves the declared support cannot follow the declared density: the range part of C14 (draws within the
    # sign / bound support, discrete uniform within [lo, hi]) is a necessary condition of "samples follow the density"
    from . import c14
    c14.r141(ctx, c14.concrete_dists(prog))


def r152(ctx, dists):
    prog = ctx.prog
    ctx.rule('R15.2', 'outside the documented support every reachable return of the density / probability is exactly 0 (cdf: 0 below, 1 above)')
    np_ = Program(prog, {'distributions', 'utils', 'streams'})
    for c in dists:
        if c in NO_SUPPORT_BOUND:
            ctx.sample(f'R15.2: {c}: no bound to check ({NO_SUPPORT_BOUND[c]})')
            continue
        if c not in SUPPORT:
            raise AnalysisError(f'R15.2: no documented support recorded for distribution {c}; add it to the checker table')
        for (m, side, bound, expect) in SUPPORT[c]:
            dc, fn = prog.resolve(c, m)
            if fn is None:
                raise AnalysisError(f'anchor vanished: {c}.{m}')
            an = Analyser(np_, max_depth=8)
            an.expr_axioms = {k: v[0] for k, v in EXPR_AXIOMS.items()}
            inv = an.class_invariant(c)
            st = an.instantiate(c, inv)
            an.cur = [(c, c, '<entry>')]
            ann = fn.args.args[1].annotation
            isint = ann is not None and unparse(ann) == 'int'
            kind, val, strict = bound
            if kind == 'const':
                if side == BELOW:
                    iv = Itv(-I.INF, float(val), True, strict, False, isint)
                else:
                    iv = Itv(float(val), I.INF, strict, True, False, isint)
                x = st.new(iv.norm())
            else:
                x = st.new(Itv(isint=isint))
                fa = st.fld.get(val)
                if fa is None:
                    raise AnalysisError(f'anchor vanished: field {c}.{val}')
                if side == BELOW:
                    st.rel.add(x, '<' if strict else '<=', fa)
                else:
                    st.rel.add(x, '>' if strict else '>=', fa)
            res = an.call_method(st, c, m, [x], {}, None)
            ctx.examined(len(res))
            bad = []
            for (rs, ra) in res:
                v = rs.iv(ra)
                if not (v.is_point() and v.lo == float(expect)):
                    bad.append(str(v))
            ok = bool(res) and not bad
            cond = f'x {"<" if side == BELOW else ">"}{"" if strict else "="} {val if kind == "const" else "self." + val}'
            ctx.ob('R15.2', f'{c}.{m}:{side}', ok, sample=f'{c}.{m}({cond}) -> {len(res)} return state(s), all exactly {expect}: {ok}')
            if not ok:
                ctx.finding('R15.2', f'{c}.{m}:{side}-support', dc, fn,
                            f'{m} of {c} for {cond} (outside the documented support) can return {sorted(set(bad))[:3]} instead of exactly {expect}', where=f'{dc.name}.{m}')
    ctx.exhaustive['R15.2 all documented support bounds'] = True


def r153(ctx):
    prog = ctx.prog
    ctx.rule('R15.3', 'inverse functions guard their domain: erf_inv refuses |y| > 1 and its branches are total; the truncated-normal inverse refuses y outside [0, 1]')
    np_ = Program(prog, {'distributions', 'utils', 'streams'})
    # erf_inv analysed with a free argument: all arithmetic sinks proved under the branch guards
    an = Analyser(np_, max_depth=6)
    an.record = True
    an.cur = [('<module>', '<module>', '<entry>')]
    from ..numeric import State
    st = State()
    fn = np_.funcs.get('erf_inv')
    if fn is None:
        raise AnalysisError('anchor vanished: utils.erf_inv')
    y = st.new(I.TOP)
    an.inline(st, '<module>', '<module>', fn, [y], {}, None)
    an.record = False
    n = 0
    for key, e in sorted(an.sinks.items()):
        n += 1
        ok = not e['unsafe']
        ctx.ob('R15.3', f'erf_inv:{key[-1]}:{e["text"]}', ok, sample=f'erf_inv: {key[-1]} `{e["text"][:70]}` ' + ('proved safe' if ok else 'UNPROVED ' + '; '.join(sorted(e['why']))[:80]))
        if not ok:
            node = ast.Constant(0)
            node.lineno = key[2]
            ctx.finding('R15.3', f'erf_inv:{key[-1]}:{e["text"]}', None, node, f'erf_inv can raise at `{e["text"]}`: ' + '; '.join(sorted(e['why']))[:160],
                        module=prog.module('utils'), where='utils.erf_inv', construct=e['text'])
    ctx.floor('R15.3', 'sinks inside erf_inv', n, 5)
    # the range guard of erf_inv
    guards = [unparse(i.test) for i in ast.walk(fn) if isinstance(i, ast.If) and any(isinstance(x, ast.Raise) for x in i.body)]
    yp = fn.args.args[0].arg
    ok = any(g in (f'not -1.0 <= {yp} <= 1.0', f'not -1 <= {yp} <= 1', f'{yp} < -1.0 or {yp} > 1.0', f'abs({yp}) > 1.0') for g in guards)
    if not ok:
        # decided by the interpreter: with the argument above 1 or below -1 no path of erf_inv returns normally
        ok = True
        for iv in (Itv(1.0, I.INF, True, False), Itv(-I.INF, -1.0, False, True)):
            an2 = Analyser(np_, max_depth=6)
            an2.cur = [('<module>', '<module>', '<entry>')]
            s2 = State()
            if an2.inline(s2, '<module>', '<module>', fn, [s2.new(iv)], {}, None):
                ok = False
    ctx.ob('R15.3', 'erf_inv:range-guard', ok, sample=f'erf_inv guards: {guards}')
    if not ok:
        ctx.finding('R15.3', 'erf_inv:range-guard', None, fn, 'erf_inv does not refuse arguments outside [-1, 1]', module=prog.module('utils'), where='utils.erf_inv')
    dc, f2 = prog.resolve('DistNormalTrunc', 'inverse_cumulative_probability')
    if f2 is None:
        raise AnalysisError('anchor vanished: DistNormalTrunc.inverse_cumulative_probability')
    yp = f2.args.args[1].arg
    guards = [unparse(i.test) for i in ast.walk(f2) if isinstance(i, ast.If) and any(isinstance(x, ast.Raise) for x in i.body)]
    ok = any(g in (f'{yp} < 0 or {yp} > 1', f'not 0 <= {yp} <= 1', f'{yp} < 0.0 or {yp} > 1.0', f'not 0.0 <= {yp} <= 1.0') for g in guards)
    if not ok:
        ok = True
        for iv in (Itv(1.0, I.INF, True, False), Itv(-I.INF, 0.0, False, True)):
            an2 = Analyser(np_, max_depth=8)
            s2 = an2.instantiate('DistNormalTrunc', an2.class_invariant('DistNormalTrunc'))
            an2.cur = [('DistNormalTrunc', 'DistNormalTrunc', '<entry>')]
            if an2.call_method(s2, 'DistNormalTrunc', 'inverse_cumulative_probability', [s2.new(iv)], {}, None):
                ok = False
    ctx.ob('R15.3', 'DistNormalTrunc.inverse_cumulative_probability:guard', ok, sample=f'truncated-normal inverse guards: {guards}')
    if not ok:
        ctx.finding('R15.3', 'DistNormalTrunc.inverse_cumulative_probability:guard', dc, f2, 'the truncated-normal inverse cdf does not refuse probabilities outside [0, 1]',
                    where='DistNormalTrunc.inverse_cumulative_probability')


def r154_inverse_pairs(ctx, dists):
    """R15.4: cdf(inverse_cdf(y)) == y as an identity of rational functions over erf / erf_inv / exp / log atoms"""
    from ..algebra import Translator, Rat, p_atom, Unsupported, ctor_field_defs, computing_returns, main_return
    prog = ctx.prog
    ctx.rule('R15.4', 'cumulative_probability(inverse_cumulative_probability(y)) == y for every computed return of the inverse, decided by exact rational-function '
                      'algebra with the laws erf(erf_inv z) = z, exp(log z) = z (constructor-defined fields substituted)')
    decided = 0
    for c in dists:
        dcf, cdf = prog.resolve(c, 'cumulative_probability')
        dci, inv = prog.resolve(c, 'inverse_cumulative_probability')
        if cdf is None or inv is None or any(unparse(d) == 'abstractmethod' for f in (cdf, inv) for d in f.decorator_list):
            continue
        if not computing_returns(cdf) or not computing_returns(inv):
            continue                                     # e.g. `raise NotImplementedError`-style stubs
        fdefs, params = ctor_field_defs(prog, c)
        for direction in ('cdf(inverse(y))', 'inverse(cdf(x))'):
            outer, inner, odc = (cdf, inv, dcf) if direction.startswith('cdf') else (inv, cdf, dci)
            var = 'y' if direction.startswith('cdf') else 'x'
            inner_dc = dci if direction.startswith('cdf') else dcf
            for k, r in enumerate(computing_returns(inner)):
                ctx.examined()
                tr = Translator(prog, c, fdefs)
                tr.set_ctor_params(params)
                v = Rat(p_atom(var))
                try:
                    om = main_return(outer)
                    if om is None:
                        raise Unsupported(f'{odc.name}.{outer.name} has {len(computing_returns(outer))} computed returns')
                    from ..algebra import path_env
                    mid = tr.expr(r.value, path_env(tr, inner, r, {inner.args.args[1].arg: v}, inner_dc.name), inner_dc.name)
                    oret = computing_returns(outer)[0]
                    res = tr.expr(om, path_env(tr, outer, oret, {outer.args.args[1].arg: mid}, odc.name), odc.name)
                    ok = res.equals(v)
                except Unsupported as e:
                    ctx.note(f'R15.4: {c} {direction} return #{k + 1} not expressible in the algebra ({e}); not decided')
                    continue
                decided += 1
                ctx.ob('R15.4', f'{c}:{direction}:{k}', ok, sample=f'{c}: {direction} with inner return `{short(r.value, 60)}` simplifies to {str(res)[:80]}')
                if not ok:
                    ctx.finding('R15.4', f'{c}.{inner.name}:{direction}:{short(r.value, 40)}', inner_dc, r,
                                f'{direction} is not the identity on the path returning `{short(r.value, 70)}`: it simplifies to `{str(res)[:160]}` instead of {var}: '
                                'the cumulative distribution function and its inverse are not mutually inverse (declared quantiles disagree with the cdf and the sampler)',
                                where=f'{inner_dc.name}.{inner.name}')
    ctx.floor('R15.4', 'cdf / inverse compositions decided', decided, 6)
    ctx.exhaustive['R15.4 computed return paths of every cdf/inverse pair'] = True


def r155_density_is_derivative(ctx, dists):
    """R15.5: d/dx cumulative_probability(x) == probability_density(x) on the computed return paths (exact symbolic differentiation)"""
    from ..algebra import (Translator, Rat, p_atom, Unsupported, ctor_field_defs, computing_returns, path_env, positive_ctor_params, derivative)
    prog = ctx.prog
    ctx.rule('R15.5', 'the density is the derivative of the cumulative distribution function: d/dx cdf(x) - pdf(x) == 0 as an exact identity '
                      '(symbolic differentiation with erf\' = 2/sqrt(pi)·exp(-z²), exp, log, sqrt; constructor-defined fields substituted)')
    decided = 0
    for c in dists:
        dcf, cdf = prog.resolve(c, 'cumulative_probability')
        dcp, pdf = prog.resolve(c, 'probability_density')
        if cdf is None or pdf is None:
            continue
        crs, prs = computing_returns(cdf), computing_returns(pdf)
        if len(crs) != 1 or len(prs) != 1:
            continue
        ctx.examined()
        fdefs, params = ctor_field_defs(prog, c)
        tr = Translator(prog, c, fdefs)
        tr.set_ctor_params(params)
        tr.positive = positive_ctor_params(prog, c)
        x = Rat(p_atom('x'))
        try:
            ce = tr.expr(crs[0].value, path_env(tr, cdf, crs[0], {cdf.args.args[1].arg: x}, dcf.name), dcf.name)
            pe = tr.expr(prs[0].value, path_env(tr, pdf, prs[0], {pdf.args.args[1].arg: x}, dcp.name), dcp.name)
            d = derivative(tr, ce, 'x')
            ok = d.equals(pe)
        except Unsupported as e:
            ctx.note(f'R15.5: {c} not expressible in the algebra ({e}); not decided')
            continue
        decided += 1
        ctx.ob('R15.5', c, ok, sample=f'{c}: d/dx [{short(crs[0].value, 50)}] = {str(d)[:90]} ; pdf = {str(pe)[:90]}')
        if not ok:
            ctx.finding('R15.5', f'{c}.probability_density:derivative', dcp, prs[0],
                        f'the density `{short(prs[0].value, 60)}` is not the derivative of the cumulative distribution function `{short(crs[0].value, 60)}`: '
                        f'd/dx cdf = `{str(d)[:140]}` but pdf = `{str(pe)[:140]}` (density and cdf describe different distributions)', where=f'{dcp.name}.probability_density')
    ctx.floor('R15.5', 'density / cdf pairs decided', decided, 3)


def r156_erf_inv_centres(ctx):
    """R15.6: each rational piece of erf_inv is evaluated at t = ax*ax - b*b with b the upper end of the piece's own interval"""
    from fractions import Fraction
    prog = ctx.prog
    ctx.rule('R15.6', 'erf_inv: every piece `t = ax * ax - K` uses K = (upper end of the piece\'s interval)**2 exactly, so neighbouring pieces meet where the guards say')
    if 'erf_inv' not in prog.funcs:
        raise AnalysisError('anchor vanished: utils.erf_inv')
    mod, fn = prog.funcs['erf_inv']

    def num(e):
        if isinstance(e, ast.Constant) and isinstance(e.value, (int, float)) and not isinstance(e.value, bool):
            return Fraction(repr(e.value)) if isinstance(e.value, float) else Fraction(e.value)
        if isinstance(e, ast.BinOp) and isinstance(e.op, (ast.Mult, ast.Add, ast.Sub, ast.Pow)):
            a, b = num(e.left), num(e.right)
            if a is None or b is None:
                return None
            if isinstance(e.op, ast.Mult):
                return a * b
            if isinstance(e.op, ast.Add):
                return a + b
            if isinstance(e.op, ast.Sub):
                return a - b
            return a ** int(b) if b.denominator == 1 and 0 <= b <= 4 else None
        return None
    n = 0
    cur = None
    for st in ast.walk(fn):
        if not isinstance(st, ast.If):
            continue
        # upper bound of the guard: `ax <= b` or `a <= ax <= b`
        test = st.test
        ub = None
        if isinstance(test, ast.Compare) and all(isinstance(o, (ast.LtE, ast.Lt)) for o in test.ops):
            ub = num(test.comparators[-1])
            var = unparse(test.comparators[-2]) if len(test.comparators) > 1 else unparse(test.left)
        if ub is None:
            continue
        for a in st.body:
            if isinstance(a, ast.Assign) and isinstance(a.value, ast.BinOp) and isinstance(a.value.op, ast.Sub) \
                    and unparse(a.value.left) in (f'{var} * {var}', f'{var} ** 2'):
                k = num(a.value.right)
                n += 1
                ctx.examined()
                ok = k is not None and k == ub * ub
                ctx.ob('R15.6', f'erf_inv:{float(ub)}', ok, sample=f'erf_inv piece up to {float(ub)}: `{short(a)}`; centre {float(k) if k is not None else "?"} == {float(ub * ub)}: {ok}')
                if not ok:
                    ctx.finding('R15.6', f'erf_inv:centre:{float(ub)}', None, a,
                                f'the piece of erf_inv for {var} <= {float(ub)} is evaluated at `{short(a.value)}`, but its expansion point is {float(ub)}**2 = {float(ub * ub)}: '
                                'the approximation is shifted on that interval (accuracy lost, erf_inv jumps at the boundary, cdf and inverse cdf no longer inverse to 1e-8)',
                                module=mod, where='utils.erf_inv')
    ctx.floor('R15.6', 'rational pieces of erf_inv with a centre', n, 2)


def r157_draw_by_inversion(ctx, dists):
    """R15.7: where draw() is a closed form g(u) of ONE uniform u, the declared density f satisfies f(g(u)) * g'(u) == +1 or -1 identically
    (change of variables; exact algebra with x**y = exp(y log x), exp / log laws, symbolic differentiation): the sampler draws from the
    distribution that probability_density declares."""
    import copy
    from ..algebra import Translator, Rat, p_atom, p_const, Unsupported, ctor_field_defs, computing_returns, path_env, derivative, positive_ctor_params
    prog = ctx.prog
    ctx.rule('R15.7', 'samplers by inversion: probability_density(draw(u)) * d draw / du == +-1 identically, for every draw() that is a closed form of one uniform')
    decided = 0
    for c in dists:
        dcf, pdf = prog.resolve(c, 'probability_density')
        dcd, dr = prog.resolve(c, 'draw')
        if pdf is None or dr is None or any(isinstance(x, (ast.While, ast.For)) for x in ast.walk(dr)):
            continue
        prs = computing_returns(pdf)
        drs = computing_returns(dr)
        if len(prs) != 1 or len(drs) != 1:
            continue                                  # piecewise densities / samplers: one branch pairing per piece is not attempted
        fdefs, params = ctor_field_defs(prog, c)
        draws = set()

        class U(ast.NodeTransformer):
            def visit_Call(self, node):
                t = unparse(node.func)
                if t.endswith('.next_float') or t.endswith('._next_positive_float'):
                    draws.add(unparse(node))
                    return ast.copy_location(ast.Name(id='u__', ctx=ast.Load()), node)
                return self.generic_visit(node)
        fn2 = U().visit(copy.deepcopy(dr))
        ast.fix_missing_locations(fn2)
        ncalls = sum(1 for x in ast.walk(fn2) if isinstance(x, ast.Name) and x.id == 'u__')
        r2s = computing_returns(fn2)
        if len(r2s) != 1 or not draws or ncalls != 1:
            continue
        tr = Translator(prog, c, fdefs)
        tr.set_ctor_params(params)
        tr.positive = positive_ctor_params(prog, c)
        tr.general_pow = True
        u = Rat(p_atom('u'))
        try:
            g_ = tr.expr(r2s[0].value, path_env(tr, fn2, r2s[0], {'u__': u}, dcd.name), dcd.name)
            f_ = tr.expr(prs[0].value, path_env(tr, pdf, prs[0], {pdf.args.args[1].arg: g_}, dcf.name), dcf.name)
            from ..algebra import merge_exps
            prod = merge_exps(tr, f_ * derivative(tr, g_, 'u'))
            ok = prod.equals(Rat(p_const(1))) or prod.equals(Rat(p_const(-1)))
        except Unsupported as e:
            ctx.note(f'R15.7: {c}: density of the sampler not expressible in the algebra ({e}); not decided')
            continue
        ctx.examined()
        decided += 1
        ctx.ob('R15.7', f'{c}:draw', ok, sample=f'{c}: f(g(u)) g\'(u) with g = `{short(drs[0].value, 50)}` simplifies to {str(prod)[:50]}')
        if not ok:
            ctx.finding('R15.7', f'{c}.draw:inversion', dcd, drs[0],
                        f'with g(u) = `{short(drs[0].value, 70)}` the product probability_density(g(u)) * g\'(u) simplifies to `{str(prod)[:140]}`, not to +-1: the sampler does not draw '
                        f'from the distribution that probability_density of {c} declares', where=f'{dcd.name}.draw')
    ctx.floor('R15.7', 'samplers by inversion decided', decided, 2)


def r1510_odd_erf_inv(ctx):
    """erf_inv is an odd function: what it returns for -y is minus what it returns for y.  The inverse cdfs of the normal family lean on
    it for the lower half of the probabilities.  Decided on path summaries (E10): for y < 0 and for y > 0 the paths are paired by the
    branch conditions on |y| they take, and the returned expressions must be each other's negation (helpers like sign(y) and
    copysign(c, y) are evaluated for the case)."""
    import copy as _copy
    from ..pathsum import PathSum, Unsupported
    prog = ctx.prog
    ctx.rule('R15.10', 'erf_inv(-y) == -erf_inv(y): for every branch on |y| the value returned for y < 0 is the negation of the value returned for y > 0')
    if 'erf_inv' not in prog.funcs:
        raise AnalysisError('anchor vanished: utils.erf_inv')
    mod, fn = prog.funcs['erf_inv']
    yp = fn.args.args[0].arg
    anycls = next(iter(prog.classes))

    def const_of_helper(name, rel):
        """value of a one-argument module-level helper for an argument below / above zero, when every path returns the same constant"""
        if name not in prog.funcs:
            return None
        hf = prog.funcs[name][1]
        if len(hf.args.args) != 1:
            return None
        p = hf.args.args[0].arg
        try:
            outs = PathSum(prog, anycls, hf, {('ord', p, '0'): rel, ('bool', f'math.isnan({p})'): False}, assume_validated=False).run()
        except Unsupported:
            return None
        vals = {unparse(o.value) for o in outs if o.kind == 'return' and o.value is not None and not any(isinstance(b, str) for (_c, b) in o.conds)}
        if len(vals) == 1 and len(outs) == 1:
            return outs[0].value
        return None

    class Case(ast.NodeTransformer):
        def __init__(self, rel):
            self.rel = rel

        def visit_Call(self, node):
            self.generic_visit(node)
            f = unparse(node.func)
            if f == 'math.copysign' and len(node.args) == 2 and unparse(node.args[1]) == yp:
                return node.args[0] if self.rel == 'gt' else ast.UnaryOp(op=ast.USub(), operand=node.args[0])
            if isinstance(node.func, ast.Name) and len(node.args) == 1 and unparse(node.args[0]) == yp:
                c = const_of_helper(node.func.id, self.rel)
                if c is not None:
                    return _copy.deepcopy(c)
            return node

    def norm(e):
        """(sign, text of the magnitude)"""
        sgn = 1
        while True:
            if isinstance(e, ast.UnaryOp) and isinstance(e.op, ast.USub):
                sgn, e = -sgn, e.operand
            elif isinstance(e, ast.BinOp) and isinstance(e.op, ast.Mult) and isinstance(e.left, ast.Constant) and e.left.value in (1, -1, 1.0, -1.0):
                sgn, e = sgn * (1 if e.left.value > 0 else -1), e.right
            elif isinstance(e, ast.BinOp) and isinstance(e.op, ast.Mult) and isinstance(e.left, ast.UnaryOp) and isinstance(e.left.op, ast.USub) \
                    and isinstance(e.left.operand, ast.Constant) and e.left.operand.value in (1, 1.0):
                sgn, e = -sgn, e.right
            elif isinstance(e, ast.BinOp) and isinstance(e.op, ast.Mult) and isinstance(e.right, ast.Constant) and e.right.value in (1, -1, 1.0, -1.0):
                sgn, e = sgn * (1 if e.right.value > 0 else -1), e.left
            elif isinstance(e, ast.Constant) and isinstance(e.value, (int, float)) and not isinstance(e.value, bool) and e.value < 0:
                return -sgn, repr(-e.value)
            else:
                return sgn, unparse(e)

    paths = {}
    try:
        for rel in ('lt', 'gt'):
            env = {('ord', yp, '0'): rel, ('bool', f'isinstance({yp}, (float, int))'): True}
            for o in PathSum(prog, anycls, fn, env, assume_validated=True, opaque_loops=True).run():
                if o.kind != 'return' or o.value is None:
                    continue
                key = tuple((c, b) for (c, b) in o.conds if isinstance(b, str))
                v = Case(rel).visit(_copy.deepcopy(o.value))
                ast.fix_missing_locations(v)
                paths.setdefault(key, {})[rel] = (v, o.node)
    except Unsupported as e:
        ctx.note(f'R15.10: erf_inv is outside the path summaries ({e}); that it is an odd function is not decided')
        return
    ctx.floor('R15.10', 'branches of erf_inv on |y|', len(paths), 3)
    for key, d in sorted(paths.items(), key=lambda kv: str(kv[0])):
        ctx.examined()
        branch = ' and '.join((('' if b == 'fork:T' else 'not ') + f'({c})') for (c, b) in key) or 'no condition on |y|'
        if 'lt' not in d or 'gt' not in d:
            continue                          # a branch only one sign can reach (e.g. an early exit for y < 0 that has a twin elsewhere) is compared below
        (vn, nn), (vp, _np) = d['lt'], d['gt']
        sn, tn = norm(vn)
        sp, tp = norm(vp)
        ok = tn == tp and sn == -sp
        ctx.ob('R15.10', f'erf_inv:odd:{branch[:40]}', ok, sample=f'erf_inv for {branch[:60]}: y<0 -> {short(vn, 40)}; y>0 -> {short(vp, 40)}')
        if not ok:
            ctx.finding('R15.10', f'erf_inv:odd:{branch[:50]}', None, nn,
                        f'erf_inv is not odd on the branch {branch[:90]}: for y < 0 it returns `{short(vn, 50)}`, for y > 0 `{short(vp, 50)}` -- the first must be the negation '
                        f'of the second (the inverse cdfs of the normal family are wrong, not merely imprecise, for probabilities in the lower tail)',
                        module=mod, where='utils.erf_inv')


def r1511_composed_samplers(ctx):
    """Samplers that draw from a helper Gamma distribution declare a density of another family; the two agree only if the helper is built
    with the parameters the transformation law asks for (my transcription of the laws, listed in the evidence):
        Pearson5(alpha, beta)  =  c / X,  X ~ Gamma(shape alpha, scale s)   requires   c / s == beta      (inverse gamma)
        Erlang(k, scale)       =  X,      X ~ Gamma(shape k, scale s)       requires   s == scale
    The constructor arguments of the helper are compared as rational functions of the distribution's own constructor parameters (E9)."""
    from ..algebra import Rat, Translator, Unsupported, ctor_field_defs, p_atom, positive_ctor_params
    prog = ctx.prog
    ctx.rule('R15.11', 'helper Gamma distributions of composed samplers (Pearson5 = c / Gamma, Erlang = Gamma) carry the parameters the transformation law requires')
    ctx.trust('transformation laws: X ~ Gamma(a, s) => c / X ~ InverseGamma(a, c / s); Erlang(k, scale) = Gamma(k, scale)')
    LAWS = [('DistPearson5', 'reciprocal', 'alpha', 'beta'), ('DistErlang', 'same', 'k', 'scale')]
    n = 0
    for (c, form, pshape, pscale) in LAWS:
        ci = prog.classes.get(c)
        if ci is None:
            raise AnalysisError(f'anchor vanished: class {c}')
        helpers = []
        for m, fn in ci.methods.items():
            for a in ast.walk(fn):
                if isinstance(a, (ast.Assign, ast.AnnAssign)) and getattr(a, 'value', None) is not None:
                    for call in ast.walk(a.value):
                        if isinstance(call, ast.Call) and unparse(call.func) == 'DistGamma' and len(call.args) == 3 and not call.keywords:
                            for t in (a.targets if isinstance(a, ast.Assign) else [a.target]):
                                if isinstance(t, ast.Attribute):
                                    helpers.append((t.attr, call, fn))
        if not helpers:
            raise AnalysisError(f'anchor vanished: {c} builds no helper DistGamma')
        fdefs, params = ctor_field_defs(prog, c)
        for (h, call, fn) in helpers:
            n += 1
            tr = Translator(prog, c, fdefs)
            tr.set_ctor_params(params)
            tr.positive = positive_ctor_params(prog, c)
            try:
                shape = tr.expr(call.args[1], {}, c)
                scale = tr.expr(call.args[2], {}, c)
                ok_shape = shape.equals(Rat(p_atom(pshape)))
                num = Rat(p_atom('__one')) if False else None
                if form == 'same':
                    ok_scale = scale.equals(Rat(p_atom(pscale)))
                    got = f'scale {scale!r}'
                else:
                    dc, dfn = prog.resolve(c, 'draw')
                    rets = [r for r in ast.walk(dfn) if isinstance(r, ast.Return) and isinstance(r.value, ast.BinOp) and isinstance(r.value.op, ast.Div)
                            and unparse(r.value.right) == f'self.{h}.draw()']
                    if len(rets) != 1:
                        raise Unsupported(f'{c}.draw is not `c / self.{h}.draw()`')
                    cnum = tr.expr(rets[0].value.left, {}, c)
                    ok_scale = (cnum / scale).equals(Rat(p_atom(pscale)))
                    got = f'{cnum!r} / scale {scale!r}'
            except Unsupported as e:
                ctx.note(f'R15.11: {c}.{h}: not expressible in the algebra ({e}); not decided')
                continue
            ok = ok_shape and ok_scale
            ctx.ob('R15.11', f'{c}.{h}', ok, sample=f'{c}.{h} = DistGamma(shape {shape!r}, scale {scale!r}); law requires shape {pshape}, {"scale" if form == "same" else "c / scale"} == {pscale}')
            if not ok:
                ctx.finding('R15.11', f'{c}.{h}:parameters', ci, call,
                            f'{c} draws from `{short(call, 60)}`: ' + (f'its shape is {shape!r}, not {pshape}; ' if not ok_shape else '') +
                            (f'{got} is not {pscale}; ' if not ok_scale else '') +
                            f'the sampler then follows another member of the family than the density / cdf the class declares', where=f'{c}.{fn.name}')
    ctx.floor('R15.11', 'helper Gamma constructions', n, 2)
