"""E10 -- path summaries over a finite case partition.

A loop-free method body is walked statement by statement for ONE abstract case (an environment for `GuardEval` that decides
the conditions the case is about).  The walk keeps a symbolic store: every local and every `self.<field>` written so far is
bound to an expression over the state at entry (`self.f` denotes the value at entry) and the parameters.  Conditions are
decided after substituting the store; a condition the case does not decide forks the walk.  The result is the list of
outcomes of the case: how the path ends (return / raise / fall off the end), the final store, and the calls made, all in
terms of the entry state.  Nothing is executed and no solver is involved: conditions are decided by table lookup in the case
environment (`guards.GuardEval`), arithmetic is not interpreted beyond `a - b ? 0  ==  a ? b`.

Used where a rule has to compare what a method does per case with a specification, independently of how the method spells it
(order of statements, helper locals, early returns, tuple assignments).
"""
from __future__ import annotations

import ast
import copy

from .core import AnalysisError, unparse
from .guards import GuardEval


class Unsupported(Exception):
    pass


class Outcome:
    def __init__(self, kind, store, calls, conds, node=None, exc=None, value=None, locs=None, ret=None):
        self.locs = locs or {}      # local name (or `name.attr` of a local object) -> expression over the entry state
        self.ret = ret              # the returned expression as written (before substitution)
        self.kind = kind            # 'return' | 'raise' | 'fall'
        self.store = store          # field name -> expression (ast) over the entry state
        self.calls = calls          # [ast.Call with substituted arguments], in order
        self.conds = conds          # [(text, branch)] decided on the way; undecided ones carry branch 'fork:T' / 'fork:F'
        self.node = node
        self.exc = exc
        self.value = value

    def field(self, f):
        v = self.store.get(f)
        return unparse(v) if v is not None else f'self.{f}'

    def written(self, f):
        return f in self.store


class _Sub(ast.NodeTransformer):
    def __init__(self, locs, fields):
        self.locs, self.fields = locs, fields

    def visit_Name(self, node):
        if isinstance(node.ctx, ast.Load) and node.id in self.locs:
            return copy.deepcopy(self.locs[node.id])
        return node

    def visit_Attribute(self, node):
        if isinstance(node.ctx, ast.Load) and isinstance(node.value, ast.Name) and node.value.id == 'self' and node.attr in self.fields:
            v = self.fields[node.attr]
            if isinstance(v, ast.Call) and unparse(v.func).split('.')[-1][:1].isupper():
                return node                        # an object constructed on this path: it is referred to through the field, not by its constructor call
            return copy.deepcopy(v)
        if isinstance(node.ctx, ast.Load) and isinstance(node.value, ast.Name) and f'{node.value.id}.{node.attr}' in self.locs:
            return copy.deepcopy(self.locs[f'{node.value.id}.{node.attr}'])       # a field written on a local object earlier on the path
        return self.generic_visit(node)

    def visit_Lambda(self, node):
        return node


def _zero(e):
    return isinstance(e, ast.Constant) and isinstance(e.value, (int, float)) and not isinstance(e.value, bool) and e.value == 0


class _Arith(ast.NodeTransformer):
    """a - b ? 0  ->  a ? b ;  0 ? a - b  ->  b ? a.
    Exact in IEEE-754 arithmetic when a and b are strictly ordered (the difference of two different floats is never zero, and
    inf - finite keeps its sign) or unordered (NaN propagates, every ordering test is false either way).  When a == b the
    difference is 0 or -- for two infinities of the same sign -- NaN: only the strict tests `<` and `>` agree then (both false).
    The relation of a and b is read from the case environment; without one the comparison is left alone."""

    def __init__(self, env):
        self.env = env

    def _rel(self, a, b):
        ta, tb = unparse(a), unparse(b)
        if ('ord', ta, tb) in self.env:
            return self.env[('ord', ta, tb)]
        if ('ord', tb, ta) in self.env:
            return {'lt': 'gt', 'gt': 'lt'}.get(self.env[('ord', tb, ta)], self.env[('ord', tb, ta)])
        return None

    def visit_Compare(self, node):
        self.generic_visit(node)
        if len(node.ops) == 1:
            l, r = node.left, node.comparators[0]
            for (d, z, swap) in ((l, r, False), (r, l, True)):
                if isinstance(d, ast.BinOp) and isinstance(d.op, ast.Sub) and _zero(z):
                    rel = self._rel(d.left, d.right)
                    strict = isinstance(node.ops[0], (ast.Lt, ast.Gt))
                    if rel in ('lt', 'gt', 'un') or (rel == 'eq' and strict):
                        a, b = (d.left, d.right) if not swap else (d.right, d.left)
                        return ast.copy_location(ast.Compare(left=a, ops=node.ops, comparators=[b]), node)
        return node


class PathSum:
    def __init__(self, prog, cls, fn, env, enums=None, max_paths=64, assume_validated=True, inline_self=False, opaque_loops=False):
        self.prog, self.cls, self.fn, self.env, self.enums = prog, cls, fn, env, enums
        self.opaque_loops = opaque_loops    # a loop is not walked: whatever it assigns becomes an unknown named after the loop (enough to compare paths with each other)
        self.inline_self = inline_self      # statement calls `self.m(..)` of loop-free methods of the same class are walked in place
        self._depth = 0
        self.max_paths = max_paths
        self.assume_validated = assume_validated
        self.outcomes = []

    def _ev(self, test, locs, fields):
        t = _Sub(locs, fields).visit(copy.deepcopy(test))
        t = _Arith(self.env).visit(t)
        ast.fix_missing_locations(t)
        ge = GuardEval(self.prog, self.cls, self.env, self.enums)
        return ge.ev(t), unparse(t)

    def _fold(self, e):
        """conditional expressions whose test the case decides are replaced by the chosen operand"""
        me = self

        class F(ast.NodeTransformer):
            def visit_IfExp(self, node):
                self.generic_visit(node)
                r = GuardEval(me.prog, me.cls, me.env, me.enums).ev(_Arith(me.env).visit(copy.deepcopy(node.test)))
                if r is True:
                    return node.body
                if r is False:
                    return node.orelse
                return node

            def visit_BoolOp(self, node):
                # `a or b` / `a and b` whose first operand the case decides
                self.generic_visit(node)
                vals = list(node.values)
                while len(vals) > 1:
                    r = GuardEval(me.prog, me.cls, me.env, me.enums).ev(copy.deepcopy(vals[0]))
                    if r is None:
                        break
                    if r == isinstance(node.op, ast.Or):
                        return vals[0]                # decided by the first operand: that operand is the value
                    vals = vals[1:]                   # the first operand lets the next one decide
                if len(vals) == 1:
                    return vals[0]
                node.values = vals
                return node

            def visit_Lambda(self, node):
                return node
        e = F().visit(e)
        ast.fix_missing_locations(e)
        return e

    def run(self):
        body = [s for s in self.fn.body if not (isinstance(s, ast.Expr) and isinstance(s.value, ast.Constant))]
        self._block(body, {}, {}, [], [], lambda l, f, c, k: self.outcomes.append(Outcome('fall', f, c, k)))
        return self.outcomes

    # continuation-passing walk: `k(locs, fields, calls, conds)` is what follows the block
    def _block(self, stmts, locs, fields, calls, conds, k):
        if len(self.outcomes) > self.max_paths:
            raise Unsupported('too many paths')
        if not stmts:
            return k(locs, fields, calls, conds)
        st, rest = stmts[0], stmts[1:]
        nxt = lambda l, f, c, kk: self._block(rest, l, f, c, kk, k)
        sub = lambda e: self._fold(_Sub(locs, fields).visit(copy.deepcopy(e)))
        if isinstance(st, ast.If):
            r, txt = self._ev(st.test, locs, fields)
            branches = [(True, st.body), (False, st.orelse)]
            if r is None and self.assume_validated:
                # an undecided guard one of whose branches only raises is an input validation: the accepted input passes it
                def only_raises(b):
                    return len(b) == 1 and isinstance(b[0], ast.Raise)
                if only_raises(st.body) and not only_raises(st.orelse):
                    r = False
                    txt = 'validated: not ' + txt
                elif only_raises(st.orelse) and not only_raises(st.body):
                    r = True
                    txt = 'validated: ' + txt
            for (br, blk) in branches:
                if r is not None and r != br:
                    continue
                tag = br if r is not None else ('fork:T' if br else 'fork:F')
                self._block(list(blk), dict(locs), dict(fields), list(calls), conds + [(txt, tag)], nxt)
            return
        if isinstance(st, ast.Return):
            if getattr(self, '_ret_stack', None):
                # return of a method walked in place: continue after the call in the caller
                return self._ret_stack[-1](fields, calls, conds)
            self.outcomes.append(Outcome('return', fields, calls, conds, st, value=sub(st.value) if st.value is not None else None, locs=dict(locs), ret=st.value))
            return
        if isinstance(st, ast.Raise):
            self.outcomes.append(Outcome('raise', fields, calls, conds, st, exc=unparse(st.exc) if st.exc is not None else ''))
            return
        if isinstance(st, ast.Pass):
            return nxt(locs, fields, calls, conds)
        if isinstance(st, (ast.Assign, ast.AnnAssign)):
            if getattr(st, 'value', None) is None:
                return nxt(locs, fields, calls, conds)
            targets = st.targets if isinstance(st, ast.Assign) else [st.target]
            val = sub(st.value)
            calls = calls + [c for c in ast.walk(val) if isinstance(c, ast.Call) and self._effectful(c)]
            for t in targets:
                self._bind(t, val, locs, fields)
            return nxt(locs, fields, calls, conds)
        if isinstance(st, ast.AugAssign):
            cur = sub(ast.copy_location(_load(st.target), st))
            val = ast.copy_location(ast.BinOp(left=cur, op=st.op, right=sub(st.value)), st)
            self._bind(st.target, val, locs, fields)
            return nxt(locs, fields, calls, conds)
        if isinstance(st, ast.Expr) and self.inline_self and isinstance(st.value, ast.Call) and isinstance(st.value.func, ast.Attribute) \
                and isinstance(st.value.func.value, ast.Name) and st.value.func.value.id == 'self' and self._depth < 3:
            callee = self.prog.method(self.cls, st.value.func.attr) if hasattr(self.prog, 'method') else None
            if callee is not None and not any(isinstance(x, (ast.While, ast.For, ast.Try, ast.With)) for x in ast.walk(callee)) \
                    and not st.value.keywords and len(callee.args.args) - 1 == len(st.value.args):
                args = [sub(a) for a in st.value.args]
                clocs = {p.arg: a for p, a in zip(callee.args.args[1:], args)}
                body = [s_ for s_ in callee.body if not (isinstance(s_, ast.Expr) and isinstance(s_.value, ast.Constant))]
                stack = getattr(self, '_ret_stack', None)
                if stack is None:
                    stack = self._ret_stack = []

                def after(f_, c_, k_, locs=locs):
                    stack.pop()
                    self._depth -= 1
                    try:
                        return self._block(rest, dict(locs), f_, c_, k_, k)
                    finally:
                        self._depth += 1
                        stack.append(after)
                stack.append(after)
                self._depth += 1
                try:
                    return self._block(body, clocs, fields, calls, conds, lambda l, f_, c_, k_: after(f_, c_, k_))
                finally:
                    self._depth -= 1
                    if stack and stack[-1] is after:
                        stack.pop()
        if isinstance(st, ast.Expr):
            v = sub(st.value)
            new = [c for c in ast.walk(v) if isinstance(c, ast.Call) and self._effectful(c)]
            return nxt(locs, fields, calls + new, conds)
        if isinstance(st, ast.Assert):
            return nxt(locs, fields, calls, conds)
        if isinstance(st, (ast.For, ast.While)) and self.opaque_loops and not any(isinstance(x, (ast.Return, ast.Raise)) for x in ast.walk(st)):
            locs, fields = dict(locs), dict(fields)
            for x in ast.walk(st):
                if isinstance(x, ast.Name) and isinstance(x.ctx, ast.Store):
                    locs[x.id] = ast.Name(id=f'__loop{st.lineno}_{x.id}', ctx=ast.Load())
                elif isinstance(x, ast.Attribute) and isinstance(x.ctx, ast.Store) and isinstance(x.value, ast.Name) and x.value.id == 'self':
                    fields[x.attr] = ast.Name(id=f'__loop{st.lineno}_self_{x.attr}', ctx=ast.Load())
            return nxt(locs, fields, calls, conds)
        raise Unsupported(f'{type(st).__name__} statement at line {getattr(st, "lineno", "?")}')

    @staticmethod
    def _effectful(c):
        f = unparse(c.func)
        return not (f in ('max', 'min', 'abs', 'float', 'int', 'isinstance', 'len', 'str', 'repr', 'type', 'round', 'bool')
                    or f.startswith(('math.', 'logger.', 'logging.')))

    def _bind(self, t, val, locs, fields):
        if isinstance(t, ast.Name):
            locs[t.id] = val
        elif isinstance(t, ast.Attribute) and isinstance(t.value, ast.Name) and t.value.id == 'self':
            fields[t.attr] = val
        elif isinstance(t, ast.Attribute) and isinstance(t.value, ast.Name) and t.value.id in locs:
            locs[f'{t.value.id}.{t.attr}'] = val          # a field of an object created on this path and held in a local
        elif isinstance(t, (ast.Tuple, ast.List)) and isinstance(val, (ast.Tuple, ast.List)) and len(t.elts) == len(val.elts):
            for a, b in zip(t.elts, val.elts):          # the right-hand side was substituted as a whole before any binding
                self._bind(a, b, locs, fields)
        else:
            raise Unsupported(f'assignment target `{unparse(t)}`')


def _load(t):
    t = copy.deepcopy(t)
    for n in ast.walk(t):
        if hasattr(n, 'ctx'):
            n.ctx = ast.Load()
    return t
