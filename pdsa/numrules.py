"""Rules built on the numeric abstract interpreter E7 (pdsa.numeric): totality of arithmetic (C09, C10, C14, C15),
NaN-structure tables (R9.5 / R10.5), return-range facts (R14.5, R15.1/R15.2)."""
from __future__ import annotations

import ast

from . import itv as I
from .core import AnalysisError, short, unparse
from .itv import Itv
from .numeric import Analyser, Program

NONNEG = Itv(0.0, I.INF, False, True)
POS = Itv(0.0, I.INF, True, True)

STAT_AXIOMS = {'Tally': {'_m2': NONNEG, '_m4': NONNEG}, 'WeightedTally': {'_weight_times_variance': NONNEG}}
STAT_AXIOM_REASONS = [
    'axiom Tally._m2 >= 0: it accumulates delta*(value - new_mean), a product of two same-signed factors (Welford); numerical fact, not derived',
    'axiom Tally._m4 >= 0: fourth central moment sum (Pebay recurrence); numerical fact, not derived',
    'axiom WeightedTally._weight_times_variance >= 0: accumulates weight*(value-old_mean)*(value-new_mean) with weight > 0; numerical fact, not derived',
]


def sink_key(key):
    (cls, fn, _ln, _col, _el, _ec, kind) = key
    return cls, fn, kind


def run_totality(ctx, rule, modules, targets, axioms=None, depth=5, cap=64, ctors=(), handproofs=None, what='query', expr_axioms=None,
                 record_raises=False):
    """analyse entry points; one obligation per distinct sink; finding per unproved sink.
    targets: [(class, [methods])]; ctors: classes whose __init__ is analysed with free parameters."""
    if ctx.tier == 'thorough':
        depth, cap = depth + 4, cap * 8          # deeper inlining, later joins: more path sensitivity
    prog = Program(ctx.prog, set(modules))
    an = Analyser(prog, axioms=axioms or {}, max_depth=depth, cap=cap, record_raises=record_raises)
    an.expr_axioms = {k: v[0] for k, v in (expr_axioms or {}).items()}
    handproofs = handproofs or {}
    entries = 0
    ranges = {}
    for c in ctors:
        if c not in prog.classes:
            raise AnalysisError(f'anchor vanished: class {c}')
        ci, init = prog.resolve(c, '__init__')
        if init is not None:
            an.analyse_ctor(c)
            entries += 1
    for (c, methods) in targets:
        if c not in prog.classes:
            raise AnalysisError(f'anchor vanished: class {c}')
        for m in methods:
            ci, fn = prog.resolve(c, m)
            if fn is None:
                raise AnalysisError(f'anchor vanished: {c}.{m}')
            ranges[(c, m)] = an.analyse_entry(c, m)
            entries += 1
    nsinks = 0
    for key, e in sorted(an.sinks.items(), key=lambda kv: (kv[0][0], kv[0][1], kv[0][2], kv[0][3])):
        cls, fn, ln, col, _el, _ec, kind = key
        nsinks += 1
        text = e['text']
        k = f'{cls}.{fn}:{kind}:{text}'
        ok = not e['unsafe']
        hp = handproofs.get((cls, fn, kind, text))
        if not ok and hp is not None:
            ok = True
            ctx.note(f'{rule}: sink `{text}` in {cls}.{fn} discharged by hand proof: {hp}')
            ctx.assume(f'hand proof for {cls}.{fn} `{text}`: {hp}')
        ctx.ob(rule, k, ok, sample=f'{cls}.{fn}: {kind} `{text}` ' + ('proved safe' if not e['unsafe'] else ('HAND PROOF' if ok else 'UNPROVED: ' + '; '.join(sorted(e['why']))[:120])))
        if not ok:
            ci = ctx.prog.classes.get(cls)
            node = ast.Constant(0)
            node.lineno = ln
            chain = sorted(e['chains'], key=len)[0] if e['chains'] else ''
            ctx.finding(rule, k, ci, node,
                        f'{what} can raise: `{text}` ({kind}) is not proved safe -- ' + '; '.join(sorted(e['why']))[:200]
                        + (f' [reached via {chain}]' if '>' in chain else ''),
                        construct=text, where=f'{cls}.{fn}', extra={'call_chains': sorted(e['chains'])[:4]})
    for k, (iv, proof) in (expr_axioms or {}).items():
        if k in an.expr_axioms_used:
            ctx.assume(f'hand-proved local range fact in {k[0]}.{k[1]}: `{k[2]}` in {iv} -- {proof}')
        else:
            ctx.note(f'{rule}: hand-proof entry for `{k[2]}` in {k[0]}.{k[1]} did not match any expression (stale entry, ignored)')
    if an.notes:
        deep = sorted({n for n in an.notes if 'depth limit' in n})
        if deep:
            ctx.note(f'{rule}: inlining bound reached at {deep[:5]} (callee result treated as unknown)')
    ctx.extra.setdefault('numeric', {})[rule] = {'entry_points': entries, 'sinks': nsinks,
                                                 'unproved': sum(1 for e in an.sinks.values() if e['unsafe'])}
    return an, ranges


def nan_table(ctx, rule, modules, cls, getters, nfield, spec, extra_fields=None, pos_fields=None):
    """R9.5 / R10.5: evaluate each getter with the observation count pinned to 0,1,2,3,4 and [5,inf) and compare the
    NaN-structure (NaN only / number) with the documented thresholds.  spec: {(getter, args): first n with a number}"""
    prog = Program(ctx.prog, set(modules))
    counts = (0, 1, 2, 3, 4, '5+')
    cells = 0
    for (g, args) in getters:
        if prog.resolve(cls, g)[1] is None:
            raise AnalysisError(f'anchor vanished: {cls}.{g}')
        row = []
        for n in counts:
            ax = {}
            for c, fields in (pos_fields or {}).items():
                ax.setdefault(c, {}).update({f: POS for f in fields})
            niv = Itv(float(n), float(n), False, False, isint=True) if n != '5+' else Itv(5.0, I.INF, False, True, isint=True)
            ax.setdefault(cls, {})[nfield] = niv
            for f in (extra_fields or ()):
                ax[cls][f] = niv
            an = Analyser(prog, axioms=ax)
            inv = an.class_invariant(cls)
            st = an.instantiate(cls, inv)
            an.cur = [(cls, cls, '<entry>')]
            argatoms = [st.new(I.const(a)) for a in args]
            res = an.call_method(st, cls, g, argatoms, {}, None)
            iv = None
            for (rs, ra) in res:
                iv = rs.iv(ra) if iv is None else I.join(iv, rs.iv(ra))
            kind = 'NaN' if (iv is None or (iv.empty and iv.nan)) else ('num' if not iv.nan else 'num|NaN')
            row.append(kind)
            cells += 1
            ctx.examined()
        first = spec[(g, args)]
        want = ['NaN' if (n != '5+' and n < first) else 'num' for n in counts]
        ok = row == want
        label = f'{cls}.{g}({", ".join(map(str, args))})'
        ctx.ob(rule, label, ok, sample=f'{label}: n=0..4,5+ -> {row} (documented: a number from n >= {first})')
        if not ok:
            ci = ctx.prog.classes.get(cls)
            dc, fn = ctx.prog.resolve(cls, g)
            i = [j for j in range(len(counts)) if row[j] != want[j]][0]
            ctx.finding(rule, f'{label}:n={counts[i]}', dc, fn,
                        f'{label} with {counts[i]} observation(s) yields {row[i]} but the documentation says '
                        + ('NaN (statistic undefined below ' + str(first) + ' observations)' if want[i] == 'NaN' else 'a number')
                        + f'; extracted row {dict(zip(map(str, counts), row))}', where=f'{dc.name}.{g}')
    ctx.exhaustive[f'{rule} {cls}: count classes x getters'] = True
    return cells
