"""Rules built on the numeric abstract interpreter E7 (pdsa.numeric): totality of arithmetic (C09, C10, C14, C15),
NaN-structure tables (R9.5 / R10.5), return-range facts (R14.5, R15.1/R15.2)."""
from __future__ import annotations

import ast

from . import itv as I
from .core import AnalysisError, short, unparse
from .itv import Itv
from .numeric import Analyser, Program

NONNEG = Itv(0.0, I.INF, False, True)
POS = Itv(0.0, I.INF, True, True)

STAT_AXIOMS = {'Tally': {'_m2': NONNEG, '_m4': NONNEG}, 'WeightedTally': {'_weight_times_variance': NONNEG}}
STAT_AXIOM_REASONS = [
    'axiom Tally._m2 >= 0: it accumulates delta*(value - new_mean), a product of two same-signed factors (Welford); numerical fact, not derived',
    'axiom Tally._m4 >= 0: fourth central moment sum (Pebay recurrence); numerical fact, not derived',
    'axiom WeightedTally._weight_times_variance >= 0: accumulates weight*(value-old_mean)*(value-new_mean) with weight > 0; numerical fact, not derived',
]


def sink_key(key):
    (cls, fn, _ln, _col, _el, _ec, kind) = key
    return cls, fn, kind


def run_totality(ctx, rule, modules, targets, axioms=None, depth=5, cap=64, ctors=(), handproofs=None, what='query', expr_axioms=None,
                 record_raises=False):
    """analyse entry points; one obligation per distinct sink; finding per unproved sink.
    targets: [(class, [methods])]; ctors: classes whose __init__ is analysed with free parameters."""
    if ctx.tier == 'thorough':
        depth, cap = depth + 4, cap * 8          # deeper inlining, later joins: more path sensitivity
    prog = Program(ctx.prog, set(modules))
    an = Analyser(prog, axioms=axioms or {}, max_depth=depth, cap=cap, record_raises=record_raises)
    an.expr_axioms = {k: v[0] for k, v in (expr_axioms or {}).items()}
    handproofs = handproofs or {}
    entries = 0
    ranges = {}
    for c in ctors:
        if c not in prog.classes:
            raise AnalysisError(f'anchor vanished: class {c}')
        ci, init = prog.resolve(c, '__init__')
        if init is not None:
            an.analyse_ctor(c)
            entries += 1
    for (c, methods) in targets:
        if c not in prog.classes:
            raise AnalysisError(f'anchor vanished: class {c}')
        for m in methods:
            ci, fn = prog.resolve(c, m)
            if fn is None:
                raise AnalysisError(f'anchor vanished: {c}.{m}')
            ranges[(c, m)] = an.analyse_entry(c, m)
            entries += 1
    nsinks = 0
    for key, e in sorted(an.sinks.items(), key=lambda kv: (kv[0][0], kv[0][1], kv[0][2], kv[0][3])):
        cls, fn, ln, col, _el, _ec, kind = key
        nsinks += 1
        text = e['text']
        k = f'{cls}.{fn}:{kind}:{text}'
        ok = not e['unsafe']
        hp = handproofs.get((cls, fn, kind, text))
        if not ok and hp is not None:
            ok = True
            ctx.note(f'{rule}: sink `{text}` in {cls}.{fn} discharged by hand proof: {hp}')
            ctx.assume(f'hand proof for {cls}.{fn} `{text}`: {hp}')
        ctx.ob(rule, k, ok, sample=f'{cls}.{fn}: {kind} `{text}` ' + ('proved safe' if not e['unsafe'] else ('HAND PROOF' if ok else 'UNPROVED: ' + '; '.join(sorted(e['why']))[:120])))
        if not ok:
            ci = ctx.prog.classes.get(cls)
            node = ast.Constant(0)
            node.lineno = ln
            chain = sorted(e['chains'], key=len)[0] if e['chains'] else ''
            ctx.finding(rule, k, ci, node,
                        (f'{what} may never return: the loop `{text}` -- ' if kind == 'loop' else f'{what} can raise: `{text}` ({kind}) is not proved safe -- ')
                        + '; '.join(sorted(e['why']))[:260] + (f' [reached via {chain}]' if '>' in chain else ''),
                        construct=text, where=f'{cls}.{fn}', extra={'call_chains': sorted(e['chains'])[:4]})
    for k, (iv, proof) in (expr_axioms or {}).items():
        if k in an.expr_axioms_used:
            ctx.assume(f'hand-proved local range fact in {k[0]}.{k[1]}: `{k[2]}` in {iv} -- {proof}')
        else:
            ctx.note(f'{rule}: hand-proof entry for `{k[2]}` in {k[0]}.{k[1]} did not match any expression (stale entry, ignored)')
    if an.notes:
        deep = sorted({n for n in an.notes if 'depth limit' in n})
        if deep:
            ctx.note(f'{rule}: inlining bound reached at {deep[:5]} (callee result treated as unknown)')
    ctx.extra.setdefault('numeric', {})[rule] = {'entry_points': entries, 'sinks': nsinks,
                                                 'unproved': sum(1 for e in an.sinks.values() if e['unsafe'])}
    return an, ranges


def nan_table(ctx, rule, modules, cls, getters, nfield, spec, extra_fields=None, pos_fields=None, zero_fields=None, label_suffix='', num_fields=None):
    """R9.5 / R10.5: evaluate each getter with the observation count pinned to 0,1,2,3,4 and [5,inf) and compare the
    NaN-structure (NaN only / number) with the documented thresholds.  spec: {(getter, args): first n with a number}"""
    prog = Program(ctx.prog, set(modules))
    counts = (0, 1, 2, 3, 4, '5+')
    cells = 0
    for (g, args) in getters:
        if prog.resolve(cls, g)[1] is None:
            raise AnalysisError(f'anchor vanished: {cls}.{g}')
        row = []
        for n in counts:
            ax = {}
            for c, fields in (pos_fields or {}).items():
                ax.setdefault(c, {}).update({f: POS for f in fields})
            for c, fields in (zero_fields or {}).items():
                ax.setdefault(c, {}).update({f: Itv(0.0, 0.0, False, False) for f in fields})
            if n != 0:
                # with at least one observation the running extremes / mean are numbers (maintained by register: accumulator rule)
                for c, fields in (num_fields or {}).items():
                    ax.setdefault(c, {}).update({f: I.TOP for f in fields})
            niv = Itv(float(n), float(n), False, False, isint=True) if n != '5+' else Itv(5.0, I.INF, False, True, isint=True)
            ax.setdefault(cls, {})[nfield] = niv
            for f in (extra_fields or ()):
                ax[cls][f] = niv
            an = Analyser(prog, axioms=ax)
            inv = an.class_invariant(cls)
            st = an.instantiate(cls, inv)
            an.cur = [(cls, cls, '<entry>')]
            argatoms = [st.new(I.const(a)) for a in args]
            res = an.call_method(st, cls, g, argatoms, {}, None)
            iv = None
            for (rs, ra) in res:
                o_ = rs.obj.get(ra)
                parts = list(o_[1]) if o_ is not None and o_[0] == 'tuple' else [ra]       # an interval (lo, hi): every component counts
                for pa in parts:
                    iv = rs.iv(pa) if iv is None else I.join(iv, rs.iv(pa))
            kind = 'NaN' if (iv is None or (iv.empty and iv.nan)) else ('num' if not iv.nan else 'num|NaN')
            row.append(kind)
            cells += 1
            ctx.examined()
        first = spec[(g, args)]
        want = ['NaN' if ((n != '5+' and n < first) or (n == '5+' and first > 5)) else 'num' for n in counts]
        ok = row == want
        label = f'{cls}.{g}({", ".join(map(str, args))})' + label_suffix
        ctx.ob(rule, label, ok, sample=f'{label}: n=0..4,5+ -> {row} (documented: a number from n >= {first})')
        if not ok:
            ci = ctx.prog.classes.get(cls)
            dc, fn = ctx.prog.resolve(cls, g)
            i = [j for j in range(len(counts)) if row[j] != want[j]][0]
            ctx.finding(rule, f'{label}:n={counts[i]}', dc, fn,
                        f'{label} with {counts[i]} observation(s) yields {row[i]} but the documentation says '
                        + ('NaN (statistic undefined below ' + str(first) + ' observations)' if want[i] == 'NaN' else 'a number')
                        + f'; extracted row {dict(zip(map(str, counts), row))}', where=f'{dc.name}.{g}')
    ctx.exhaustive[f'{rule} {cls}: count classes x getters'] = True
    return cells


# ----------------------------------------------------------------------------- convex mean update (R9.6 / R10.6)
def _flatten_mul(s, atom, out):
    d = s.defs.get(atom)
    if d and d[0] == 'mul':
        _flatten_mul(s, d[1], out)
        _flatten_mul(s, d[2], out)
    else:
        out.append(atom)


def _is_sub_of(s, atom, x, m):
    """atom is (x - m) by definition (operands compared as atoms or through equal definitions)"""
    d = s.defs.get(atom)
    if not d or d[0] != 'sub':
        return False
    def same(a, b):
        return a == b or (s.defs.get(a) is not None and s.defs.get(a) == s.defs.get(b)) or s.rel.possible(a, b) == {'='}
    return same(d[1], x) and same(d[2], m)


def convex_update(ctx, rule, modules, cls, mean_field, acc_field, value_param, axioms):
    """The sign axiom `acc >= 0` of a variance accumulator is justified structurally: on every accepting path of
    register() the mean moves by a convex step  M1 = M0 + c*(x - M0), 0 <= c <= 1  (c = 1/n with n >= 1, or w/W with
    0 <= w <= W), and the accumulator grows by  k * (x - M0) * (x - M1)  with k >= 0.  Then the increment equals
    k*(1-c)*(x-M0)^2 >= 0, also in floating point, because M1 is computed by one rounded convex step from M0 towards x."""
    from .numeric import State
    prog = Program(ctx.prog, set(modules))
    an = Analyser(prog, axioms=axioms, max_depth=12)
    inv = an.class_invariant(cls)
    st = an.instantiate(cls, inv)
    m0 = st.fld.get(mean_field)
    a0 = st.fld.get(acc_field)
    if m0 is None or a0 is None:
        raise AnalysisError(f'anchor vanished: {cls}.{mean_field} / {acc_field}')
    ci, fn = prog.resolve(cls, 'register')
    if fn is None:
        raise AnalysisError(f'anchor vanished: {cls}.register')
    # every method that stores the accumulator (other than the constructor) is held to the same shape: register, and e.g. a merge of another
    # instance (whose own accumulator is >= 0 by the same argument); a path that sets the accumulator to a constant >= 0 is a reset
    writers = ['register']
    for k_ in prog.mro(cls):
        for mn_, f_ in prog.classes[k_].methods.items():
            if mn_ not in writers and mn_ != '__init__' and prog.resolve(cls, mn_) and prog.resolve(cls, mn_)[1] is f_ and any(
                    isinstance(x, ast.Attribute) and isinstance(x.ctx, ast.Store) and x.attr == acc_field and isinstance(x.value, ast.Name)
                    and x.value.id == 'self' for x in ast.walk(f_)):
                writers.append(mn_)
    problems = []
    updated = 0
    res = []
    for mn_ in writers:
        ci_w, fn_w = prog.resolve(cls, mn_)
        st_w = st if mn_ == 'register' else an.instantiate(cls, inv)
        an.cur = [(cls, cls, '<entry>')]
        # free parameters; remember the atom of the observation value
        for (rs, _ra) in an.inline(st_w, cls, ci_w.name, fn_w, [], {}, None, free_params=True):
            res.append((rs, mn_, st_w.fld.get(mean_field), st_w.fld.get(acc_field)))
    for (rs, mn_, m0, a0) in res:
        m1 = rs.fld.get(mean_field)
        a1 = rs.fld.get(acc_field)
        if a1 == a0 and m1 == m0:
            continue                        # path that does not accumulate (e.g. zero weight)
        if mn_ != 'register':
            da_ = rs.defs.get(a1)
            if da_ and da_[0] == 'const' and isinstance(da_[1], (int, float)) and da_[1] >= 0:
                continue                    # a reset
        updated += 1
        ctx.examined()
        # the value atom: whatever the mean step subtracts M0 from
        dm = rs.defs.get(m1)
        c_ok = False
        x = None
        why = f'mean is set to `{_show(rs, m1)}`, not to old_mean + c*(x - old_mean)'
        if dm and dm[0] == 'add' and (dm[1] == m0 or dm[2] == m0):
            k = dm[2] if dm[1] == m0 else dm[1]
            dk = rs.defs.get(k)
            if dk and dk[0] == 'div':
                dd = rs.defs.get(dk[1])
                if dd and dd[0] == 'sub' and dd[2] == m0:
                    x = dd[1]
                    n_iv = rs.iv(dk[2])
                    c_ok = (not n_iv.empty) and n_iv.lo >= 1.0 and not n_iv.nan
                    why = f'step divisor in {n_iv}, need >= 1'
            elif dk and dk[0] == 'mul':
                for (c_at, d_at) in ((dk[1], dk[2]), (dk[2], dk[1])):
                    dd = rs.defs.get(d_at)
                    if dd and dd[0] == 'sub' and dd[2] == m0:
                        x = dd[1]
                        dc = rs.defs.get(c_at)
                        civ = rs.iv(c_at)
                        if civ.ge0() and civ.hi <= 1.0:
                            c_ok = True
                        elif dc and dc[0] == 'div':
                            w, W = dc[1], dc[2]
                            if rs.iv(w).ge0() and rs.iv(W).gt0() and rs.rel.possible(w, W) <= {'<', '='}:
                                c_ok = True
                        why = 'step factor is not proved to lie in [0, 1]'
        if not c_ok:
            problems.append(why + (f' (in {mn_})' if mn_ != 'register' else ''))
            continue
        da = rs.defs.get(a1)
        inc = None
        if da and da[0] == 'add' and (da[1] == a0 or da[2] == a0):
            inc = da[2] if da[1] == a0 else da[1]
        if inc is None:
            problems.append(f'accumulator is set to `{_show(rs, a1)}`, not incremented')
            continue
        # the increment is a sum of terms: products k*(x-old)*(x-new) with k >= 0 (at least one), and terms that are >= 0 by themselves (a
        # constant, the accumulator of another instance)
        terms = []

        def _flatten_add(atom):
            d_ = rs.defs.get(atom)
            if d_ and d_[0] == 'add':
                _flatten_add(d_[1]); _flatten_add(d_[2])
            else:
                terms.append(atom)
        _flatten_add(inc)
        n_prod, bad_term = 0, False
        for t_ in terms:
            factors = []
            _flatten_mul(rs, t_, factors)
            f_old = [f for f in factors if _is_sub_of(rs, f, x, m0)]
            f_new = [f for f in factors if _is_sub_of(rs, f, x, m1)]
            rest = [f for f in factors if f not in f_old[:1] + f_new[:1]]
            if len(f_old) >= 1 and len(f_new) >= 1 and all(rs.iv(f).ge0() and not rs.iv(f).nan for f in rest):
                n_prod += 1
            elif rs.iv(t_).ge0() and not rs.iv(t_).nan and len(terms) > 1:
                pass
            else:
                bad_term = True
        if n_prod < 1 or bad_term:
            problems.append('accumulator increment is not k*(x - old_mean)*(x - new_mean) with k >= 0' + (f' (in {mn_})' if mn_ != 'register' else ''))
    ok = updated > 0 and not problems
    ctx.ob(rule, f'{cls}.register:{acc_field}', ok,
           sample=f'{cls}.register: {updated} accumulating path(s); mean step convex and {acc_field} += k*(x-old)*(x-new): {ok}')
    if not ok:
        dc, f2 = ctx.prog.resolve(cls, 'register')
        ctx.finding(rule, f'{cls}.register:{acc_field}:not-convex', dc, f2,
                    f'the sign of {acc_field} (assumed >= 0 by every variance / stdev / skewness guard) is not guaranteed: '
                    + ('; '.join(sorted(set(problems))) if problems else 'no accumulating path found')
                    + '. With a mean that is not a single convex step from the old mean towards the observation, (x-old)*(x-new) can be negative by rounding: '
                      'variance < 0, sqrt raises, zero-variance guards are bypassed', where=f'{dc.name}.register')
    return ok


def _show(s, atom, depth=0):
    for n, a in s.fld.items():
        if a == atom:
            return f'self.{n}'
    for n, a in s.env.items():
        if a == atom:
            return n
    d = s.defs.get(atom)
    if not d or depth > 3:
        return '<old value>' if not d else '…'
    if d[0] == 'const':
        return repr(d[1])
    return d[0] + '(' + ', '.join(_show(s, x, depth + 1) if isinstance(x, int) else str(x) for x in d[1:]) + ')'


# ----------------------------------------------------------------------------- count / sum / min / max update shapes (R9.7 / R10.7)
def order(s, a, b):
    """orderings of (a ? b) not excluded by facts and intervals: subset of {'<','=','>'}"""
    poss = set(s.rel.possible(a, b))
    ia, ib = s.iv(a), s.iv(b)
    if not ia.empty and not ib.empty:
        iv = set()
        if ia.lo < ib.hi:
            iv.add('<')
        if ia.hi > ib.lo:
            iv.add('>')
        m = I.meet(Itv(ia.lo, ia.hi, ia.lo_open, ia.hi_open), Itv(ib.lo, ib.hi, ib.lo_open, ib.hi_open))
        if not m.empty:
            iv.add('=')
        poss &= iv
    return poss


def accumulators(ctx, rule, modules, cls, spec, axioms=None):
    """spec: list of (kind, field, params...) evaluated on the def-use DAG of every accepting path of cls.register:
         ('count', F)              F := F + 1 on every accepting path
         ('sum', F, x)             F := F + x on every accumulating path (see `when`)
         ('prod_sum', F, w, x)     F := F + w*x
         ('min', F, x) / ('max', F, x)   F := x when x is strictly smaller / larger than the previous F, else unchanged
       entries may carry when='pos:<param>' meaning: only on paths where that parameter is > 0; unchanged elsewhere."""
    prog = Program(ctx.prog, set(modules))
    an = Analyser(prog, axioms=axioms or {}, max_depth=12)
    inv = an.class_invariant(cls)
    st = an.instantiate(cls, inv)
    old = dict(st.fld)
    ci, fn = prog.resolve(cls, 'register')
    if fn is None:
        raise AnalysisError(f'anchor vanished: {cls}.register')
    an.cur = [(cls, cls, '<entry>')]
    res = an.inline(st, cls, ci.name, fn, [], {}, None, free_params=True)
    params = dict(an.entry_params)
    if not res:
        raise AnalysisError(f'{rule}: {cls}.register has no accepting path')
    dc, f2 = ctx.prog.resolve(cls, 'register')
    # minimum / maximum are decided by cases of the entry state (an induction over the observations registered so far):
    #   empty      the state initialize() leaves (count 0, extremum fields at their initial marker)   -> the extremum becomes the observation
    #   non-empty  count >= 1 and the extremum is a number (not NaN)                                  -> strictly better: the observation, else unchanged
    # and in both the extremum is a number afterwards, which is what makes "non-empty" cover every later state.
    cF = next((e[1] for e in spec if e[0] == 'count'), None)
    cases = None
    ci_i, fn_i = prog.resolve(cls, 'initialize')
    ext_fields = [e[1] for e in spec if e[0] in ('min', 'max')]
    if cF is not None and fn_i is not None and ext_fields:
        cases = []
        s0 = an.instantiate(cls, inv)
        an.cur = [(cls, cls, '<entry>')]
        for (rs0, _r) in an.call_method(s0, cls, 'initialize', [], {}, None, free_params=True):
            niv = rs0.iv(rs0.fld.get(cF)) if rs0.fld.get(cF) is not None else None
            if niv is None or not (niv.is_point() and niv.lo == 0.0):
                cases = None
                break
            e_old = dict(rs0.fld)
            an.cur = [(cls, cls, '<entry>')]
            cases.append(('empty', e_old, an.inline(rs0, cls, ci.name, fn, [], {}, None, free_params=True), dict(an.entry_params)))
        if cases is not None:
            s1 = an.instantiate(cls, inv)
            feasible = s1.refine(s1.fld[cF], Itv(1.0, I.INF, False, True, False, True))
            for F_ in ext_fields:
                a_ = s1.fld.get(F_)
                if a_ is not None:
                    v_ = s1.iv(a_)
                    s1.val[a_] = Itv(v_.lo, v_.hi, v_.lo_open, v_.hi_open, False, v_.isint, v_.empty)
            n_old = dict(s1.fld)
            an.cur = [(cls, cls, '<entry>')]
            cases.append(('non-empty', n_old, an.inline(s1, cls, ci.name, fn, [], {}, None, free_params=True) if feasible else [], dict(an.entry_params)))
    for entry in spec:
        kind, F = entry[0], entry[1]
        when = entry[-1] if isinstance(entry[-1], str) and entry[-1].startswith('pos:') else None
        args = [a for a in entry[2:] if not (isinstance(a, str) and a.startswith('pos:'))]
        bad = []
        for (rs, _ra) in res:
            ctx.examined()
            f0, f1 = old.get(F), rs.fld.get(F)
            if f0 is None or f1 is None:
                bad.append(f'{F} unknown')
                continue
            active = True
            if when:
                w = params.get(when[4:])
                wiv = rs.iv(w)
                if wiv.gt0():
                    active = True
                elif wiv.is_point() and wiv.lo == 0.0:
                    active = False
                else:
                    active = None
            d = rs.defs.get(f1)
            if kind in ('count', 'sum', 'prod_sum'):
                if active is False:
                    if f1 != f0:
                        bad.append(f'{F} changes although {when[4:]} is 0')
                    continue
                ok = False
                if d and d[0] == 'add' and (d[1] == f0 or d[2] == f0):
                    inc = d[2] if d[1] == f0 else d[1]
                    if kind == 'count':
                        ok = rs.defs.get(inc) == ('const', 1)
                    elif kind == 'sum':
                        ok = inc == params.get(args[0])
                    else:
                        di = rs.defs.get(inc)
                        ok = bool(di) and di[0] == 'mul' and {di[1], di[2]} == {params.get(args[0]), params.get(args[1])}
                if not ok:
                    bad.append(f'{F} becomes `{_show(rs, f1)}`')
            elif cases is not None:
                break
            else:
                x = params.get(args[0])
                prev = getattr(rs, 'prev_fld', {}).get(F, f0)
                # first observation (the count was 0): whatever the sentinel, the extremum must now be the observation itself
                cF = next((e[1] for e in spec if e[0] == 'count'), None)
                n0 = old.get(cF) if cF else None
                if n0 is not None and active is not False:
                    niv = rs.iv(n0)
                    if niv.is_point() and niv.lo == 0.0 and not (f1 == x or rs.rel.possible(f1, x) == {'='}):
                        bad.append(f'after the first observation {F} is `{_show(rs, f1)}`, not the observation (the initial sentinel is not an identity element of {kind})')
                        continue
                if f1 == x or rs.rel.possible(f1, x) == {'='}:
                    # took the observation: it must be strictly on the right side of what was there before
                    # (prev is the field value before this store: the old extremum or the +/-inf of the first observation)
                    o = order(rs, x, prev)
                    good = o <= ({'<'} if kind == 'min' else {'>'})
                    if not good:
                        bad.append(f'{F} := observation although it is not {"smaller" if kind == "min" else "larger"} than the previous {F} (possible orderings {sorted(o)})')
                else:
                    # kept a previous value: the observation must not beat it
                    o = order(rs, x, f1)
                    good = o <= ({'>', '='} if kind == 'min' else {'<', '='})
                    if not good:
                        bad.append(f'{F} keeps its value although the observation may be {"smaller" if kind == "min" else "larger"} (possible orderings {sorted(o)})')
        if kind in ('min', 'max') and cases is not None:
            npaths = 0
            for (label, c_old, c_res, c_params) in cases:
                x = c_params.get(args[0])
                for (rs, _ra) in c_res:
                    ctx.examined()
                    npaths += 1
                    f0, f1 = c_old.get(F), rs.fld.get(F)
                    if f0 is None or f1 is None or x is None:
                        bad.append(f'{F} unknown')
                        continue
                    took = f1 == x or rs.rel.possible(f1, x) == {'='}
                    if rs.iv(f1).nan and not took:
                        bad.append(f'{F} can be NaN after an observation was registered ({label} statistic)')
                        continue
                    if label == 'empty':
                        if not took:
                            bad.append(f'after the first observation {F} is `{_show(rs, f1)}`, not the observation (the initial marker is not an identity element of {kind})')
                    elif took:
                        o = order(rs, x, f0)
                        if not o <= ({'<', '='} if kind == 'min' else {'>', '='}):
                            bad.append(f'{F} := observation although it is not {"smaller" if kind == "min" else "larger"} than the previous {F} (possible orderings {sorted(o)})')
                    elif f1 == f0 or rs.rel.possible(f1, f0) == {'='}:
                        o = order(rs, x, f1)
                        if not o <= ({'>', '='} if kind == 'min' else {'<', '='}):
                            bad.append(f'{F} keeps its value although the observation may be {"smaller" if kind == "min" else "larger"} (possible orderings {sorted(o)})')
                    else:
                        bad.append(f'{F} becomes `{_show(rs, f1)}`: neither the observation nor the previous {F}')
            ok = not bad
            ctx.ob(rule, f'{cls}.register:{F}', ok, sample=f'{cls}.register: {F} updated as {kind}({", ".join(args)}) by cases (empty / non-empty statistic) on {npaths} accepting paths: {ok}')
            if not ok:
                ctx.finding(rule, f'{cls}.register:{F}:{kind}', dc, f2,
                            f'{F} is not maintained as {kind}({", ".join(args)}) of the registered observations: ' + '; '.join(sorted(set(bad))[:3]), where=f'{dc.name}.register')
            continue
        ok = not bad
        ctx.ob(rule, f'{cls}.register:{F}', ok, sample=f'{cls}.register: {F} updated as {kind}({", ".join(args)}){" when " + when[4:] + " > 0" if when else ""} on all {len(res)} accepting paths: {ok}')
        if not ok:
            ctx.finding(rule, f'{cls}.register:{F}:{kind}', dc, f2,
                        f'{F} is not maintained as {kind}({", ".join(args)}) of the registered observations: ' + '; '.join(sorted(set(bad))[:3]), where=f'{dc.name}.register')
