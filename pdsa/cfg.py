"""E2 -- statement-level control-flow graph with exception edges, dominators,
post-dominators, reachability and a small forward may-dataflow solver.

Covers the statement kinds the package uses: If / While / For / Try-except-else-
finally / With / Return / Raise / Break / Continue / Assert / simple statements.
Conditions are kept whole (short-circuit structure is handled semantically by
the guard evaluator, pdsa.guards).
"""
from __future__ import annotations

import ast

from .core import AnalysisError, unparse


class _Atom:
    """an operand of a compound condition, presented like the cond node it belongs to"""
    __slots__ = ('id', 'kind', 'ast', 'label', 'succ', 'pred', 'stmt', 'owner')

    def __init__(self, owner, expr):
        self.owner = owner
        self.id = owner.id
        self.kind = 'cond'
        self.ast = expr
        self.stmt = owner.stmt
        self.label = owner.label
        self.succ = owner.succ
        self.pred = owner.pred

    @property
    def lineno(self):
        return getattr(self.ast, 'lineno', None) or self.owner.lineno


class Node:
    __slots__ = ('id', 'kind', 'ast', 'label', 'succ', 'pred', 'stmt')

    def __init__(self, nid, kind, ast_node=None, label='', stmt=None):
        self.id = nid
        self.kind = kind        # entry | exit | raise | stmt | cond | for | handler | join | with
        self.ast = ast_node     # expression (cond/for/with) or statement (stmt) or ExceptHandler
        self.stmt = stmt        # owning statement (If / While / For / With / Try ...) where different from .ast
        self.label = label
        self.succ = []          # [(node, edge_label)]
        self.pred = []

    @property
    def lineno(self):
        a = self.ast if self.ast is not None else self.stmt
        return getattr(a, 'lineno', 0)

    def __repr__(self):
        t = ''
        if self.ast is not None:
            t = ' '.join(unparse(self.ast).split())[:50]
        return f'<{self.id}:{self.kind}:{self.label}{t}>'


def _may_raise(node):
    for n in ast.walk(node):
        if isinstance(n, (ast.Call, ast.Raise, ast.Subscript, ast.BinOp, ast.Attribute, ast.Compare)):
            return True
    return False


def _has_call(node):
    return any(isinstance(n, (ast.Call, ast.Raise)) for n in ast.walk(node))


CATCH_ALL = ('Exception', 'BaseException')


class CFG:
    def __init__(self, fn, exc_from='calls'):
        """exc_from: 'calls' = statements containing a call/raise inside a try get exception edges;
        'any' = any statement that can raise at all"""
        self.fn = fn
        self.nodes = []
        self._raises = _has_call if exc_from == 'calls' else _may_raise
        self.entry = self._mk('entry')
        self.exit = self._mk('exit')
        self.rexit = self._mk('raise')
        self._loops = []        # [(head node, break list)]
        self._tries = []        # stack of exception-target lists
        self._finals = []       # stack of pending finally bodies (for return/break through finally): not duplicated
        self.by_stmt = {}       # id(ast stmt) -> node
        out = self._seq(fn.body, [(self.entry, '')])
        for (n, l) in out:
            self._link(n, self.exit, l or 'fall')

    # ------------------------------------------------------------ construction
    def _mk(self, kind, a=None, label='', stmt=None):
        n = Node(len(self.nodes), kind, a, label, stmt)
        self.nodes.append(n)
        if stmt is not None:
            self.by_stmt.setdefault(id(stmt), n)
        elif a is not None and isinstance(a, ast.stmt):
            self.by_stmt.setdefault(id(a), n)
        return n

    @staticmethod
    def _link(a, b, lab=''):
        a.succ.append((b, lab))
        b.pred.append((a, lab))

    def _connect(self, preds, node):
        for (p, l) in preds:
            self._link(p, node, l)

    def _exc_targets(self):
        return self._tries[-1] if self._tries else [self.rexit]

    def _exc_edges(self, n, expr):
        if self._tries and self._raises(expr):
            for t in self._exc_targets():
                self._link(n, t, 'exc')

    def _seq(self, stmts, preds):
        for s in stmts:
            if not preds:
                break
            preds = self._stmt(s, preds)
        return preds

    def _stmt(self, s, preds):
        if isinstance(s, ast.If):
            c = self._mk('cond', s.test, stmt=s)
            self._connect(preds, c)
            self._exc_edges(c, s.test)
            t = self._seq(s.body, [(c, 'T')])
            f = self._seq(s.orelse, [(c, 'F')]) if s.orelse else [(c, 'F')]
            return t + f
        if isinstance(s, (ast.While, ast.For, ast.AsyncFor)):
            if isinstance(s, ast.While):
                c = self._mk('cond', s.test, stmt=s)
                self._exc_edges(c, s.test)
            else:
                c = self._mk('for', s.iter, stmt=s)
                self._exc_edges(c, s.iter)
            self._connect(preds, c)
            brk = []
            self._loops.append((c, brk))
            body_out = self._seq(s.body, [(c, 'T')])
            self._loops.pop()
            for (n, l) in body_out:
                self._link(n, c, 'back')
            always = isinstance(s, ast.While) and isinstance(s.test, ast.Constant) and bool(s.test.value) is True
            out = [] if always else [(c, 'F')]
            if s.orelse:
                out = self._seq(s.orelse, out)
            return out + brk
        if isinstance(s, ast.Try) or type(s).__name__ == 'TryStar':
            handler_entries = [self._mk('handler', h, label=(unparse(h.type) if h.type else 'bare') + ' ', stmt=h)
                               for h in s.handlers]
            fin_exc = self._mk('join', label='finally(exc) ', stmt=None) if s.finalbody else None
            inner = list(handler_entries)
            catches_all = any(h.type is None or unparse(h.type) in CATCH_ALL for h in s.handlers)
            if not catches_all:
                inner += [fin_exc] if fin_exc is not None else self._exc_targets()
            self._tries.append(inner)
            body_out = self._seq(s.body, preds)
            self._tries.pop()
            # else-block and handlers: exceptions go to finally(exc) or outwards
            self._tries.append([fin_exc] if fin_exc is not None else self._exc_targets())
            if s.orelse:
                body_out = self._seq(s.orelse, body_out)
            outs = list(body_out)
            for h, hn in zip(s.handlers, handler_entries):
                outs += self._seq(h.body, [(hn, '')])
            self._tries.pop()
            if s.finalbody:
                outs = self._seq(s.finalbody, outs)
                exc_out = self._seq(s.finalbody, [(fin_exc, '')])
                for (n, l) in exc_out:
                    for t in self._exc_targets():
                        self._link(n, t, 'reraise')
            return outs
        if isinstance(s, (ast.With, ast.AsyncWith)):
            n = self._mk('with', s.items[0].context_expr, label='with ', stmt=s)
            self._connect(preds, n)
            self._exc_edges(n, s.items[0].context_expr)
            return self._seq(s.body, [(n, '')])
        if isinstance(s, (ast.FunctionDef, ast.AsyncFunctionDef, ast.ClassDef)):
            n = self._mk('stmt', ast.Pass(), stmt=s)
            self._connect(preds, n)
            return [(n, '')]
        if type(s).__name__ == 'Match':
            raise AnalysisError('CFG: match statement not supported (not used by the package when this was written)')
        n = self._mk('stmt', s)
        self._connect(preds, n)
        if isinstance(s, ast.Return):
            if s.value is not None:
                self._exc_edges(n, s.value)
            self._link(n, self.exit, 'return')
            return []
        if isinstance(s, ast.Raise):
            for t in self._exc_targets():
                self._link(n, t, 'raise')
            return []
        if isinstance(s, ast.Break):
            if not self._loops:
                raise AnalysisError('CFG: break outside loop')
            self._loops[-1][1].append((n, 'break'))
            return []
        if isinstance(s, ast.Continue):
            self._link(n, self._loops[-1][0], 'continue')
            return []
        if isinstance(s, ast.Assert):
            for t in self._exc_targets():
                self._link(n, t, 'exc')
            return [(n, '')]
        self._exc_edges(n, s)
        return [(n, '')]

    # ------------------------------------------------------------ queries
    def node_for(self, stmt):
        n = self.by_stmt.get(id(stmt))
        if n is None:
            raise AnalysisError(f'CFG: statement not in graph: {unparse(stmt)[:60]}')
        return n

    def stmt_nodes(self):
        return [n for n in self.nodes if n.kind in ('stmt', 'cond', 'for', 'with')]

    def _dom(self, start, fwd=True):
        nodes = self.nodes
        full = set(range(len(nodes)))
        dom = {n.id: set(full) for n in nodes}
        dom[start.id] = {start.id}
        changed = True
        while changed:
            changed = False
            for n in nodes:
                if n is start:
                    continue
                ps = [p.id for (p, _) in (n.pred if fwd else n.succ)]
                new = set.intersection(*[dom[p] for p in ps]) | {n.id} if ps else {n.id}
                if new != dom[n.id]:
                    dom[n.id] = new
                    changed = True
        return dom

    def dominators(self):
        """node.id -> set of ids of dominating nodes (reflexive). Unreachable nodes dominate nothing useful."""
        if not hasattr(self, '_d'):
            self._d = self._dom(self.entry, True)
        return self._d

    def dominates(self, a: Node, b: Node):
        return a.id in self.dominators()[b.id]

    def postdominators(self, include_raise=False):
        """post-dominators with respect to the normal exit (exceptional exit ignored unless include_raise)"""
        key = '_pd_r' if include_raise else '_pd'
        if not hasattr(self, key):
            if include_raise:
                # virtual sink joining exit and raise
                sink = Node(len(self.nodes), 'sink')
                self.nodes.append(sink)
                self._link(self.exit, sink, '')
                self._link(self.rexit, sink, '')
                d = self._dom(sink, False)
                self.nodes.pop()
                self.exit.succ.pop()
                self.rexit.succ.pop()
                for v in d.values():
                    v.discard(sink.id)
                d.pop(sink.id, None)
                setattr(self, key, d)
            else:
                setattr(self, key, self._dom(self.exit, False))
        return getattr(self, key)

    def reachable_from(self, start: Node, avoid=(), labels_excluded=()):
        """ids of nodes reachable from start (exclusive) without passing through nodes in avoid"""
        avoid_ids = {a.id for a in avoid}
        seen = set()
        todo = [start]
        while todo:
            n = todo.pop()
            for (s, lab) in n.succ:
                if lab in labels_excluded or s.id in seen or s.id in avoid_ids:
                    continue
                seen.add(s.id)
                todo.append(s)
        return seen

    def reaches(self, a: Node, b: Node, avoid=(), labels_excluded=()):
        return b.id in self.reachable_from(a, avoid, labels_excluded)

    def guard_branches(self, node: Node, atoms=False):
        """[(cond node, True/False)] -- for every dominating condition, the branch through which `node` is
        reached when that is unambiguous (the other branch cannot reach node without re-passing the cond)"""
        out = []
        dom = self.dominators()[node.id]
        for cid in sorted(dom):
            c = self.nodes[cid]
            if c.kind != 'cond' or c is node:
                continue
            via = set()
            for (s, lab) in c.succ:
                if lab not in ('T', 'F'):
                    continue
                if s is node or node.id in self.reachable_from(s, avoid=(c,)) or s.id == node.id:
                    via.add(lab)
                elif s is node:
                    via.add(lab)
            # direct successor case
            for (s, lab) in c.succ:
                if lab in ('T', 'F') and s is node:
                    via.add(lab)
            if len(via) == 1:
                br = via.pop() == 'T'
                out.append((c, br))
                if atoms:
                    # the operands of a conjunction that held / a disjunction that failed are facts of their own
                    out.extend(self._atoms(c, c.ast, br))
        return out

    def _atoms(self, c, e, br):
        res = []
        if isinstance(e, ast.BoolOp) and ((isinstance(e.op, ast.And) and br) or (isinstance(e.op, ast.Or) and not br)):
            for v in e.values:
                res.append((_Atom(c, v), br))
                res.extend(self._atoms(c, v, br))
        elif isinstance(e, ast.UnaryOp) and isinstance(e.op, ast.Not):
            res.append((_Atom(c, e.operand), not br))
            res.extend(self._atoms(c, e.operand, not br))
        return res


def forward_may(cfg: CFG, init, transfer, join=None, start=None, edge_filter=None):
    """generic forward dataflow over frozenset-valued states.
    transfer(node, state_in, edge_label) -> state_out for that edge."""
    start = start or cfg.entry
    state = {start.id: init}
    work = [start]
    while work:
        n = work.pop()
        sin = state[n.id]
        for (s, lab) in n.succ:
            if edge_filter is not None and not edge_filter(n, s, lab):
                continue
            out = transfer(n, sin, lab)
            if out is None:
                continue
            cur = state.get(s.id)
            new = out if cur is None else (cur | out)
            if new != cur:
                state[s.id] = new
                work.append(s)
    return state
