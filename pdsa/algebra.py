"""E9: exact rational-function algebra over program expressions.

Turns a Python arithmetic expression into a quotient of multivariate polynomials with Fraction coefficients over
*atoms* (parameters, fields, applications of transcendental functions to normalised arguments) and decides identities
such as  cdf(inverse_cdf(y)) == y  by cross-multiplication.  Function applications are rewritten with the inverse-pair
laws  erf(erf_inv z) = z,  erf_inv(erf z) = z,  exp(log z) = z,  log(exp z) = z,  sqrt(c)**2 = c.  No floating point,
nothing executed: an identity that is reported as holding holds over the reals (on the domain where the expressions
are defined); one that is reported as failing is a non-zero polynomial, shown in the finding.
"""
from __future__ import annotations

import ast
from fractions import Fraction

from .core import AnalysisError, body_of, is_super_call, unparse

INVERSE = {('erf', 'erf_inv'), ('erf_inv', 'erf'), ('exp', 'log'), ('log', 'exp')}
FUNCS = {'math.erf': 'erf', 'erf_inv': 'erf_inv', 'math.exp': 'exp', 'math.log': 'log', 'math.sqrt': 'sqrt', 'sqrt': 'sqrt'}


class Unsupported(Exception):
    pass


# ---------------------------------------------------------------------------------------------- polynomials
# monomial: tuple of (atom, exp) sorted; polynomial: dict monomial -> Fraction

def _mono_mul(a, b):
    d = dict(a)
    for k, e in b:
        d[k] = d.get(k, 0) + e
    return tuple(sorted((k, e) for k, e in d.items() if e != 0))


def p_const(c):
    c = Fraction(c)
    return {(): c} if c != 0 else {}


def p_atom(a):
    return {((a, 1),): Fraction(1)}


def p_add(a, b, sign=1):
    out = dict(a)
    for m, c in b.items():
        out[m] = out.get(m, 0) + sign * c
        if out[m] == 0:
            del out[m]
    return out


def p_mul(a, b):
    out = {}
    for m1, c1 in a.items():
        for m2, c2 in b.items():
            m = _mono_mul(m1, m2)
            out[m] = out.get(m, 0) + c1 * c2
            if out[m] == 0:
                del out[m]
    return out


def p_show(p):
    if not p:
        return '0'
    parts = []
    for m, c in sorted(p.items(), key=lambda kv: str(kv[0])):
        t = '*'.join((a if e == 1 else f'{a}**{e}') for a, e in m)
        if not t:
            parts.append(str(c))
        elif c == 1:
            parts.append(t)
        elif c == -1:
            parts.append('-' + t)
        else:
            parts.append(f'{c}*{t}')
    return ' + '.join(parts).replace('+ -', '- ')


def p_divide(n, d):
    """exact multivariate polynomial division: q with n == q*d, or None (graded lexicographic leading terms)"""
    if not d:
        return None
    atoms = sorted({a for p in (n, d) for m in p for a, _e in m})
    idx = {a: i for i, a in enumerate(atoms)}

    def key(m):
        v = [0] * len(atoms)
        for a, e in m:
            if e < 0:
                return None
            v[idx[a]] = e
        return (sum(v), tuple(v))
    if any(key(m) is None for p in (n, d) for m in p):
        return None
    dm = max(d, key=key)
    dc = d[dm]
    q = {}
    rem = dict(n)
    steps = 0
    while rem:
        steps += 1
        if steps > 2000:
            return None
        lm = max(rem, key=key)
        ld, dd = dict(lm), dict(dm)
        if any(ld.get(a, 0) < e for a, e in dd.items()):
            return None
        t = tuple(sorted((a, ld.get(a, 0) - dd.get(a, 0)) for a in set(ld) | set(dd) if ld.get(a, 0) - dd.get(a, 0) != 0))
        c = rem[lm] / dc
        q[t] = q.get(t, 0) + c
        rem = p_add(rem, p_mul({t: c}, d), -1)
    return {m: c for m, c in q.items() if c != 0}


class Rat:
    """num / den, both polynomials; den != 0"""
    __slots__ = ('n', 'd')

    def __init__(self, n, d=None):
        self.n = n
        self.d = d if d is not None else p_const(1)
        self._reduce()

    def _reduce(self):
        if not self.n:
            self.d = p_const(1)
            return
        # sqrt(c)**2 -> c  for constant radicands
        self.n = _fold_sqrt(self.n)
        self.d = _fold_sqrt(self.d)
        if len(self.d) == 1:
            (dm, dc), = self.d.items()
            # divide by the coefficient and by the common monomial factor
            common = dict(dm)
            for m in self.n:
                md = dict(m)
                for a in list(common):
                    common[a] = min(common[a], md.get(a, 0))
            common = {a: e for a, e in common.items() if e > 0}
            inv = tuple(sorted((a, -e) for a, e in common.items()))
            self.n = {_mono_mul(m, inv): c / dc for m, c in self.n.items()}
            self.d = {_mono_mul(dm, inv): Fraction(1)}
        # num == k * den ?
        if len(self.n) == len(self.d) and set(self.n) == set(self.d):
            ks = {self.n[m] / self.d[m] for m in self.n}
            if len(ks) == 1:
                self.n, self.d = p_const(ks.pop()), p_const(1)
        if len(self.d) > 1:
            q = p_divide(self.n, self.d)
            if q is not None:
                self.n, self.d = q, p_const(1)

    def __add__(self, o):
        if self.d == o.d:
            return Rat(p_add(self.n, o.n), self.d)
        return Rat(p_add(p_mul(self.n, o.d), p_mul(o.n, self.d)), p_mul(self.d, o.d))

    def __neg__(self):
        return Rat({m: -c for m, c in self.n.items()}, self.d)

    def __sub__(self, o):
        return self + (-o)

    def __mul__(self, o):
        return Rat(p_mul(self.n, o.n), p_mul(self.d, o.d))

    def inv(self):
        if not self.n:
            raise Unsupported('division by an expression that is identically zero')
        return Rat(self.d, self.n)

    def __truediv__(self, o):
        return self * o.inv()

    def pow(self, k):
        if k < 0:
            return self.inv().pow(-k)
        out = Rat(p_const(1))
        for _ in range(k):
            out = out * self
        return out

    def is_zero(self):
        return not self.n

    def equals(self, o):
        return not _fold_sqrt(p_add(p_mul(self.n, o.d), p_mul(o.n, self.d), -1))

    def const(self):
        if len(self.d) == 1 and () in self.d and (not self.n or (len(self.n) == 1 and () in self.n)):
            return (self.n.get((), Fraction(0))) / self.d[()]
        return None

    def key(self):
        return f'({p_show(self.n)})/({p_show(self.d)})' if self.d != p_const(1) else p_show(self.n)

    def __repr__(self):
        return self.key()


def _fold_sqrt(p):
    out = {}
    for m, c in p.items():
        coef = c
        mm = []
        for a, e in m:
            if a.startswith('sqrt(') and _is_num(a[5:-1]) and abs(e) >= 2:
                v = Fraction(a[5:-1])
                q, r = divmod(abs(e), 2)
                coef = coef * (v ** q if e > 0 else Fraction(1) / (v ** q))
                if r:
                    mm.append((a, 1 if e > 0 else -1))
            else:
                mm.append((a, e))
        mm = tuple(sorted(mm))
        out[mm] = out.get(mm, 0) + coef
        if out[mm] == 0:
            del out[mm]
    return out


def _is_num(t):
    try:
        Fraction(t)
        return True
    except Exception:
        return False


# ---------------------------------------------------------------------------------------------- translation
class Translator:
    """prog: core.Program; cls: class whose methods / fields the expressions refer to"""

    def __init__(self, prog, cls, field_defs=None, max_depth=6):
        self.prog = prog
        self.cls = cls
        self.field_defs = field_defs or {}     # field -> ast expr (from the constructor), substituted on demand
        self.max_depth = max_depth
        self.trace = []
        self._atom_args = {}
        self._ctor_env = {}
        self.positive = set()                  # atoms known to be > 0 (constructor guards)

    def set_ctor_params(self, params):
        self._ctor_env = {p: Rat(p_atom(p)) for p in params}

    def apply(self, f, arg: Rat) -> Rat:
        # f(g(z)) with (f, g) an inverse pair
        if len(arg.n) == 1 and arg.d == p_const(1):
            (m, c), = arg.n.items()
            if c == 1 and len(m) == 1 and m[0][1] == 1:
                a = m[0][0]
                for (ff, gg) in INVERSE:
                    if ff == f and a.startswith(gg + '(') and a.endswith(')') and a in self._atom_args:
                        return self._atom_args[a]
        if f == 'sqrt':
            c = arg.const()
            if c is not None and c >= 0:
                # perfect squares
                import math
                n, d = c.numerator, c.denominator
                rn, rd = math.isqrt(n), math.isqrt(d)
                if rn * rn == n and rd * rd == d:
                    return Rat(p_const(Fraction(rn, rd)))
            # sqrt(c * a*b**2...) of a single monomial: split into the factors; a**2 -> a only for atoms known to be positive
            if len(arg.n) == 1 and arg.d == p_const(1):
                (m, cc), = arg.n.items()
                if m and cc > 0 and all(e == 1 or (e % 2 == 0 and a in self.positive) for a, e in m):
                    out = self.apply('sqrt', Rat(p_const(cc))) if cc != 1 else Rat(p_const(1))
                    for a, e in m:
                        out = out * (self._mk_atom('sqrt', Rat(p_atom(a))) if e == 1 else Rat(p_atom(a)).pow(e // 2))
                    return out
        if f == 'exp':
            c = arg.const()
            if c == 0:
                return Rat(p_const(1))
            if getattr(self, 'general_pow', False) and arg.d == p_const(1) and len(arg.n) > 1 or \
                    (getattr(self, 'general_pow', False) and arg.d == p_const(1) and len(arg.n) == 1 and self._log_term(next(iter(arg.n.items()))) is not None):
                # exp(A + k*log(x)) = x**k * exp(A) for integer k (interior of the domain: x > 0)
                out = Rat(p_const(1))
                rest = {}
                for m, cc in arg.n.items():
                    lt = self._log_term((m, cc))
                    if lt is not None:
                        x, k = lt
                        out = out * x.pow(k)
                    else:
                        rest[m] = cc
                if out.n != p_const(1) or out.d != p_const(1):
                    return out * (self.apply('exp', Rat(rest)) if rest else Rat(p_const(1)))
        if f == 'log':
            c = arg.const()
            if c == 1:
                return Rat(p_const(0))
            if getattr(self, 'general_pow', False) and len(arg.n) == 1 and len(arg.d) == 1:
                # log(c * prod a_i**e_i / (c' * prod b_j**f_j)) = log c - log c' + sum e_i log a_i - sum f_j log b_j   (all factors > 0 on the interior)
                (mn, cn), = arg.n.items()
                (md, cd), = arg.d.items()
                if (len(mn) + len(md) > 1 or (len(mn) + len(md) == 1 and (cn != 1 or cd != 1 or (mn and mn[0][1] != 1) or md))) and cn > 0 and cd > 0:
                    out = Rat(p_const(0))
                    if cn != 1:
                        out = out + self._mk_atom('log', Rat(p_const(cn)))
                    if cd != 1:
                        out = out - self._mk_atom('log', Rat(p_const(cd)))
                    for (a, e) in mn:
                        out = out + Rat(p_const(e)) * self.apply('log', Rat(p_atom(a)))
                    for (a, e) in md:
                        out = out - Rat(p_const(e)) * self.apply('log', Rat(p_atom(a)))
                    return out
        return self._mk_atom(f, arg)

    def _log_term(self, item):
        """(x, k) when the monomial is k * log(x) with integer k"""
        m, cc = item
        if len(m) == 1 and m[0][1] == 1 and m[0][0].startswith('log(') and m[0][0] in self._atom_args and Fraction(cc).denominator == 1:
            return self._atom_args[m[0][0]], int(cc)
        return None

    def _mk_atom(self, f, arg):
        name = f'{f}({arg.key()})'
        self._atom_args[name] = arg
        return Rat(p_atom(name))

    def expr(self, e, env, cls=None, depth=0) -> Rat:
        cls = cls or self.cls
        if isinstance(e, ast.Constant) and isinstance(e.value, (int, float)) and not isinstance(e.value, bool):
            if e.value != e.value or e.value in (float('inf'), float('-inf')):
                raise Unsupported('non-finite constant')
            return Rat(p_const(Fraction(str(e.value)) if isinstance(e.value, float) else Fraction(e.value)))
        if isinstance(e, ast.Name):
            if e.id in env:
                return env[e.id]
            raise Unsupported(f'unbound name {e.id}')
        if isinstance(e, ast.Attribute):
            t = unparse(e)
            if t == 'math.pi':
                return Rat(p_atom('pi'))
            if t == 'math.e':
                return self.apply('exp', Rat(p_const(1)))
            if isinstance(e.value, ast.Name) and e.value.id == 'self':
                f = e.attr
                # property -> its simple return
                if self.prog.is_prop(cls, f):
                    r = self.prog.simple_return(cls, f)
                    if r is not None:
                        return self.expr(r, env, cls, depth)
                if f in self.field_defs and depth < self.max_depth:
                    return self.expr(self.field_defs[f], self._ctor_env, cls, depth + 1)
                return Rat(p_atom('self.' + f))
            raise Unsupported(f'attribute {t}')
        if isinstance(e, ast.UnaryOp) and isinstance(e.op, ast.USub):
            return -self.expr(e.operand, env, cls, depth)
        if isinstance(e, ast.UnaryOp) and isinstance(e.op, ast.UAdd):
            return self.expr(e.operand, env, cls, depth)
        if isinstance(e, ast.BinOp):
            if isinstance(e.op, ast.Pow):
                k = e.right
                kv = None
                if isinstance(k, ast.Constant) and isinstance(k.value, (int, float)) and float(k.value).is_integer():
                    kv = int(k.value)
                elif isinstance(k, ast.UnaryOp) and isinstance(k.op, ast.USub) and isinstance(k.operand, ast.Constant) and float(k.operand.value).is_integer():
                    kv = -int(k.operand.value)
                if kv is None:
                    half = isinstance(k, ast.Constant) and k.value == 0.5
                    if half:
                        return self.apply('sqrt', self.expr(e.left, env, cls, depth))
                    if getattr(self, 'general_pow', False):
                        # x ** y = exp(y * log x) on x > 0 (used where the identity is checked on the interior of the domain)
                        return self.apply('exp', self.expr(k, env, cls, depth) * self.apply('log', self.expr(e.left, env, cls, depth)))
                    raise Unsupported('non-integer power')
                return self.expr(e.left, env, cls, depth).pow(kv)
            a, b = self.expr(e.left, env, cls, depth), self.expr(e.right, env, cls, depth)
            if isinstance(e.op, ast.Add):
                return a + b
            if isinstance(e.op, ast.Sub):
                return a - b
            if isinstance(e.op, ast.Mult):
                return a * b
            if isinstance(e.op, ast.Div):
                return a / b
            raise Unsupported(f'operator {type(e.op).__name__}')
        if isinstance(e, ast.Call):
            f = unparse(e.func)
            if f == 'float' and len(e.args) == 1:
                return self.expr(e.args[0], env, cls, depth)
            if f in FUNCS and len(e.args) == 1:
                return self.apply(FUNCS[f], self.expr(e.args[0], env, cls, depth))
            if f == 'math.pow' and len(e.args) == 2:
                return self.expr(ast.BinOp(left=e.args[0], op=ast.Pow(), right=e.args[1]), env, cls, depth)
            # self.m(args) / super().m(args): the main (last) return expression of the callee
            if isinstance(e.func, ast.Attribute) and depth < self.max_depth:
                recv = e.func.value
                target = None
                if isinstance(recv, ast.Name) and recv.id == 'self':
                    target = self.prog.resolve(self.cls, e.func.attr)
                elif is_super_call(recv):
                    target = self.prog.resolve(self.cls, e.func.attr, after=cls) if cls in self.prog.mro(self.cls) else self.prog.resolve(cls, e.func.attr, after=cls)
                if target is not None and target[1] is not None:
                    dci, fn = target
                    args = [self.expr(a, env, cls, depth) for a in e.args]
                    params = [a.arg for a in fn.args.args[1:]]
                    if len(args) != len(params):
                        raise Unsupported(f'call {unparse(e)}: arity')
                    crs = computing_returns(fn)
                    if len(crs) != 1:
                        raise Unsupported(f'{dci.name}.{fn.name} has {len(crs)} computed returns')
                    env2 = path_env(self, fn, crs[0], dict(zip(params, args)), dci.name)
                    return self.expr(crs[0].value, env2, dci.name, depth + 1)
            raise Unsupported(f'call {f}')
        raise Unsupported(type(e).__name__)


def computing_returns(fn):
    """return statements whose value is computed (not a literal, not a bare field / name): the interior of the domain"""
    out = []
    for st in ast.walk(fn):
        if isinstance(st, ast.Return) and st.value is not None:
            v = st.value
            if isinstance(v, (ast.Constant, ast.Name)) or (isinstance(v, ast.Attribute) and isinstance(v.value, ast.Name)):
                continue
            if isinstance(v, ast.UnaryOp) and isinstance(v.operand, ast.Constant):
                continue
            out.append(st)
    return out


def main_return(fn):
    """the single computed return expression of a function, or None"""
    rs = computing_returns(fn)
    return rs[0].value if len(rs) == 1 else None


def ctor_field_defs(prog, cls):
    """field -> defining expression for fields assigned exactly once, at the top level of the constructor chain"""
    defs = {}
    counts = {}
    params = set()
    for c in prog.mro(cls):
        ci = prog.classes.get(c)
        if ci is None or '__init__' not in ci.methods:
            continue
        fn = ci.methods['__init__']
        params |= {a.arg for a in fn.args.args[1:]}
        for st in ast.walk(fn):
            tgt = None
            if isinstance(st, ast.Assign) and len(st.targets) == 1:
                tgt, val = st.targets[0], st.value
            elif isinstance(st, ast.AnnAssign) and st.value is not None:
                tgt, val = st.target, st.value
            if tgt is not None and isinstance(tgt, ast.Attribute) and isinstance(tgt.value, ast.Name) and tgt.value.id == 'self':
                counts[tgt.attr] = counts.get(tgt.attr, 0) + 1
                if st in fn.body:
                    defs[tgt.attr] = val
    # fields also written outside constructors are not definitions
    for c in prog.mro(cls):
        ci = prog.classes.get(c)
        if ci is None:
            continue
        for m, fn in ci.methods.items():
            if m == '__init__':
                continue
            for x in ast.walk(fn):
                if isinstance(x, ast.Attribute) and isinstance(x.ctx, ast.Store) and isinstance(x.value, ast.Name) and x.value.id == 'self':
                    counts[x.attr] = counts.get(x.attr, 0) + 1
    return {f: v for f, v in defs.items() if counts.get(f) == 1}, params


def path_env(tr, fn, ret, env, cls):
    """environment extended with the single-name assignments that precede `ret` on its path through fn"""
    env = dict(env)

    def find(stmts):
        for i, st in enumerate(stmts):
            if st is ret:
                return [stmts[:i]]
            for field in ('body', 'orelse', 'finalbody'):
                v = getattr(st, field, None)
                if isinstance(v, list) and not isinstance(st, (ast.FunctionDef, ast.ClassDef)):
                    r = find(v)
                    if r is not None:
                        return [stmts[:i]] + r
        return None
    blocks = find(fn.body) or []
    for blk in blocks:
        for st in blk:
            tgt = val = None
            if isinstance(st, ast.Assign) and len(st.targets) == 1 and isinstance(st.targets[0], ast.Name):
                tgt, val = st.targets[0].id, st.value
            elif isinstance(st, ast.AnnAssign) and isinstance(st.target, ast.Name) and st.value is not None:
                tgt, val = st.target.id, st.value
            if tgt:
                try:
                    env[tgt] = tr.expr(val, env, cls)
                except Unsupported:
                    env.pop(tgt, None)
    return env


def positive_ctor_params(prog, cls):
    """constructor parameters p with a guard `if p <= 0: raise` (or `not p > 0`) somewhere in the constructor chain"""
    out = set()
    for c in prog.mro(cls):
        ci = prog.classes.get(c)
        if ci is None or '__init__' not in ci.methods:
            continue
        for st in ast.walk(ci.methods['__init__']):
            if isinstance(st, ast.If) and any(isinstance(x, ast.Raise) for x in st.body):
                t = unparse(st.test)
                for a in ci.methods['__init__'].args.args[1:]:
                    if t in (f'{a.arg} <= 0', f'{a.arg} <= 0.0', f'not {a.arg} > 0', f'not {a.arg} > 0.0', f'0 >= {a.arg}', f'0.0 >= {a.arg}'):
                        out.add(a.arg)
    return out


# ---------------------------------------------------------------------------------------------- differentiation
def _d_atom(tr, a, var):
    """derivative (Rat) of the atom a with respect to the atom name var"""
    if a == var:
        return Rat(p_const(1))
    if '(' not in a or a not in tr._atom_args:
        return Rat({})
    f = a[:a.index('(')]
    arg = tr._atom_args[a]
    da = derivative(tr, arg, var)
    if da.is_zero():
        return Rat({})
    me = Rat(p_atom(a))
    if f == 'exp':
        return me * da
    if f == 'log':
        return da / arg
    if f == 'sqrt':
        return da / (Rat(p_const(2)) * me)
    if f == 'erf':
        return Rat(p_const(2)) / tr.apply('sqrt', Rat(p_atom('pi'))) * tr.apply('exp', -(arg * arg)) * da
    if f == 'erf_inv':
        return tr.apply('sqrt', Rat(p_atom('pi'))) / Rat(p_const(2)) * tr.apply('exp', me * me) * da
    raise Unsupported(f'derivative of {f}')


def _d_poly(tr, p, var):
    out = Rat({})
    for m, c in p.items():
        for i, (a, e) in enumerate(m):
            da = _d_atom(tr, a, var)
            if da.is_zero():
                continue
            rest = list(m)
            rest[i] = (a, e - 1)
            mono = tuple((x, k) for x, k in rest if k != 0)
            out = out + Rat({mono: c * e}) * da
    return out


def derivative(tr, r, var):
    dn, dd = _d_poly(tr, r.n, var), _d_poly(tr, r.d, var)
    if dd.is_zero():
        return dn / Rat(r.d)
    return (dn * Rat(r.d) - Rat(r.n) * dd) / (Rat(r.d) * Rat(r.d))


def merge_exps(tr, r, rounds=4):
    """a single-term quotient with several exp(..) factors: exp(a)**i * exp(b)**j / exp(c)**k = exp(i*a + j*b - k*c), the argument simplified as a
    rational function (and k*log(x) terms taken out again as x**k by Translator.apply)"""
    for _ in range(rounds):
        if len(r.n) != 1 or len(r.d) != 1:
            return r
        (mn, cn), = r.n.items()
        (md, cd), = r.d.items()
        exps = [(a, e) for (a, e) in mn if a.startswith('exp(') and a in tr._atom_args] + [(a, -e) for (a, e) in md if a.startswith('exp(') and a in tr._atom_args]
        if len(exps) < 1:
            return r
        total = Rat(p_const(0))
        for (a, e) in exps:
            total = total + Rat(p_const(e)) * tr._atom_args[a]
        rest_n = tuple((a, e) for (a, e) in mn if not (a.startswith('exp(') and a in tr._atom_args))
        rest_d = tuple((a, e) for (a, e) in md if not (a.startswith('exp(') and a in tr._atom_args))
        new = Rat({rest_n: cn}, {rest_d: cd}) * (tr.apply('exp', total) if total.n else Rat(p_const(1)))
        if new.n == r.n and new.d == r.d:
            return r
        r = new
    return r
