"""E3 -- effect summaries and the refuse-before-effect rule (shared by C04, C09, C10, C13, C18).

An *effect* of a statement is anything an observer of the object could notice:
  write   a store to a field of self (incl. self.a.b = ..., self.a[k] = ..., del, augmented assignment)
  mutate  a call of a mutating method on a field of self (self._eventlist.add(e), self.__worker.wakeup(), ...)
  fire    self.fire / fire_timed / fire_event / fire_timed_event
  extern  a call of a state-changing package method on another object (model.construct_model(), event.execute(),
          simulator.add_listener(..), stream.set_seed(..), parent.add(self) ...)

refuse-before-effect:  on every path from the entry of a command to an explicit `raise` (its own or one inside an
inlined self/super callee whose guard is feasible at the call site) there is no effect.  Feasibility filter = guard
subsumption: a callee raise is discarded when its path condition, with the actual arguments substituted for the
parameters, is definitely false under the facts the caller has established at the call site.
"""
from __future__ import annotations

import ast
import copy

from .cfg import CFG
from .core import AnalysisError, Program, is_self_attr, is_super_call, mangle, short, unparse, walk_shallow
from .guards import canon

FIRES = {'fire', 'fire_timed', 'fire_event', 'fire_timed_event'}
CONTAINER_MUTATORS = {'append', 'remove', 'clear', 'pop', 'add', 'insert', 'extend', 'update', 'discard', 'popitem',
                      'setdefault', 'sort', 'reverse', '__setitem__', '__delitem__'}
PURE_BUILTIN_METHODS = {'get', 'keys', 'values', 'items', 'copy', 'count', 'index', 'format', 'join', 'startswith',
                        'endswith', 'split', 'strip', 'lower', 'upper', 'encode', 'is_set', 'isSet', 'getstate'}
THREAD_EVENT_MUTATORS = {'set', 'wakeup', 'start', 'setstate', 'seed'}


def root_name(node):
    while isinstance(node, (ast.Attribute, ast.Subscript)):
        node = node.value
    return node.id if isinstance(node, ast.Name) else None


def self_call_kind(node, prog: Program = None):
    """('self'|'super'|'base', method, base_class) for self.m(..) / super().m(..) / Base.m(self, ..)"""
    if not isinstance(node, ast.Call) or not isinstance(node.func, ast.Attribute):
        return None
    f = node.func
    if isinstance(f.value, ast.Name) and f.value.id == 'self':
        return ('self', f.attr, None)
    if is_super_call(f.value):
        return ('super', f.attr, None)
    if isinstance(f.value, ast.Name) and node.args and isinstance(node.args[0], ast.Name) and node.args[0].id == 'self' \
            and (prog is None or f.value.id in prog.classes):
        return ('base', f.attr, f.value.id)
    return None


class Effects:
    """classification of the effects of single statements, with a package-wide table of mutating method names"""

    def __init__(self, prog: Program):
        self.prog = prog
        self._mut_names = None

    # ---- package-wide: names of methods that (transitively, through self-calls) change their object
    def mutating_method_names(self):
        if self._mut_names is not None:
            return self._mut_names
        direct = {}
        calls = {}
        for ci in self.prog.classes.values():
            for name, fn in list(ci.methods.items()) + [(n + '.setter', f) for n, f in ci.setters.items()]:
                key = (ci.name, name)
                direct[key] = self._has_direct_self_effect(fn)
                calls[key] = {c.func.attr for c in walk_shallow(fn) if isinstance(c, ast.Call) and isinstance(c.func, ast.Attribute)
                              and (is_self_attr(c.func) or is_super_call(c.func.value))}
        changed = True
        eff = {k for k, v in direct.items() if v}
        while changed:
            changed = False
            for k, cs in calls.items():
                if k in eff:
                    continue
                for m in cs:
                    dc, fn = self.prog.resolve(k[0], m)
                    if fn is not None and (dc.name, m) in eff and m != k[1] or (fn is not None and (dc.name, m) in eff):
                        eff.add(k)
                        changed = True
                        break
        names = {k[1] for k in eff if not k[1].startswith('__') or k[1] in ('__setitem__', '__delitem__')}
        names -= {'__init__'}
        self._mut_names = names
        return names

    def _has_direct_self_effect(self, fn):
        if fn.name == '__init__':
            return False
        for n in walk_shallow(fn):
            if isinstance(n, (ast.Attribute, ast.Subscript)) and isinstance(n.ctx, (ast.Store, ast.Del)) and root_name(n) == 'self':
                return True
            if isinstance(n, ast.Call) and isinstance(n.func, ast.Attribute):
                if n.func.attr in FIRES and is_self_attr(n.func):
                    return True
                if n.func.attr in CONTAINER_MUTATORS | THREAD_EVENT_MUTATORS and root_name(n.func.value) == 'self' \
                        and isinstance(n.func.value, (ast.Attribute, ast.Subscript)):
                    return True
        return False

    # ---- effects of one CFG node payload (statement or condition expression), excluding inlinable self-calls
    def of(self, a, skip_calls=()):
        out = []
        skip = {id(c) for c in skip_calls}
        mut = self.mutating_method_names()
        for n in walk_shallow(a):
            if isinstance(n, (ast.Attribute, ast.Subscript)) and isinstance(n.ctx, (ast.Store, ast.Del)) and root_name(n) == 'self':
                out.append(('write', unparse(n), n))
            elif isinstance(n, ast.Call) and id(n) not in skip and isinstance(n.func, ast.Attribute):
                m = n.func.attr
                recv = n.func.value
                rroot = root_name(recv)
                if is_self_attr(n.func) or is_super_call(recv):
                    if m in FIRES:
                        ev = n.args[1] if m == 'fire_timed' and len(n.args) > 1 else (n.args[0] if n.args else None)
                        out.append(('fire', unparse(ev) if ev is not None else m, n))
                    continue                            # other self-calls are inlined by the caller
                if rroot == 'self':
                    if m in CONTAINER_MUTATORS | THREAD_EVENT_MUTATORS or (m in mut and m not in PURE_BUILTIN_METHODS):
                        out.append(('mutate', unparse(n.func), n))
                elif isinstance(recv, ast.Name) and recv.id == 'heapq' and n.args and root_name(n.args[0]) == 'self':
                    out.append(('mutate', unparse(n.func) + '(' + unparse(n.args[0]) + ')', n))
                elif rroot is not None and rroot not in ('self', 'cls', 'logger', 'logging', 'math', 'traceback', 'time', 'sys', 'heapq', 'os', 're'):
                    if m in mut and m not in PURE_BUILTIN_METHODS and not isinstance(recv, ast.Constant):
                        out.append(('extern', unparse(n.func), n))
            elif isinstance(n, ast.Call) and isinstance(n.func, ast.Name) and n.func.id in ('exit', 'quit'):
                out.append(('extern', n.func.id, n))
        return out


def enclosing_name_loops(fn, target):
    """(S, y) for every `for y in S:` (both plain names) of fn whose body contains the node `target`, outermost first"""
    out = []

    def walk(stmts):
        for st in stmts:
            if not any(x is target for x in ast.walk(st)):
                continue
            if isinstance(st, ast.For) and isinstance(st.iter, ast.Name) and isinstance(st.target, ast.Name) \
                    and any(x is target for b in st.body for x in ast.walk(b)):
                out.append((st.iter.id, st.target.id, st))
            for fld in ('body', 'orelse', 'finalbody', 'handlers'):
                sub = getattr(st, fld, None)
                if isinstance(sub, list):
                    walk([h for h in sub if isinstance(h, ast.stmt)] + [b for h in sub if isinstance(h, ast.ExceptHandler) for b in h.body])
            return
    walk(fn.body)
    return [(S, y) for (S, y, _st) in out]


def _sequence_is_stable(fn, S):
    """nothing in fn can change the elements of S: no S[..] store / delete, no method call on S, no augmented assignment; returns the position of
    the last binding of S (a check of the whole sequence counts only when it comes after every binding), or None when S is not stable"""
    last = (0, 0)
    for x in ast.walk(fn):
        if isinstance(x, ast.Name) and x.id == S and isinstance(x.ctx, (ast.Store, ast.Del)):
            last = max(last, (x.lineno, x.col_offset))
        elif isinstance(x, ast.Subscript) and isinstance(x.ctx, (ast.Store, ast.Del)) and isinstance(x.value, ast.Name) and x.value.id == S:
            return False
        elif isinstance(x, ast.Call) and isinstance(x.func, ast.Attribute) and isinstance(x.func.value, ast.Name) and x.func.value.id == S:
            return False
        elif isinstance(x, ast.AugAssign) and isinstance(x.target, ast.Name) and x.target.id == S:
            return False
    return last


def validated_element_facts(fn, S, y, target):
    """[(condition over y, truth)] known of every element y of the stable local sequence S at `target`, from whole-sequence checks that precede
    the statement containing `target` in an enclosing block"""
    last_bound = _sequence_is_stable(fn, S)
    if not last_bound:
        return []
    facts = []

    def sub(expr, x):
        return Subst({x: ast.Name(id=y, ctx=ast.Load())}).visit(copy.deepcopy(expr)) if x != y else expr

    def from_stmt(st):
        # for x in S: if C(x): raise ...   (nothing else in the body)
        if isinstance(st, ast.For) and isinstance(st.iter, ast.Name) and st.iter.id == S and isinstance(st.target, ast.Name) and not st.orelse \
                and st.body and all(isinstance(b, ast.If) and not b.orelse and len(b.body) == 1 and isinstance(b.body[0], ast.Raise) for b in st.body):
            for b in st.body:
                if not any(isinstance(n, ast.NamedExpr) for n in ast.walk(b.test)):
                    facts.append((sub(b.test, st.target.id), False))
        # if any(C(x) for x in S): raise   /   if not all(P(x) for x in S): raise
        if isinstance(st, ast.If) and not st.orelse and len(st.body) == 1 and isinstance(st.body[0], ast.Raise):
            t, neg = st.test, False
            if isinstance(t, ast.UnaryOp) and isinstance(t.op, ast.Not):
                t, neg = t.operand, True
            if isinstance(t, ast.Call) and isinstance(t.func, ast.Name) and t.func.id in ('any', 'all') and len(t.args) == 1 \
                    and isinstance(t.args[0], (ast.GeneratorExp, ast.ListComp)) and len(t.args[0].generators) == 1:
                gen = t.args[0].generators[0]
                if isinstance(gen.iter, ast.Name) and gen.iter.id == S and isinstance(gen.target, ast.Name) and not gen.ifs and not gen.is_async:
                    if t.func.id == 'any' and not neg:
                        facts.append((sub(t.args[0].elt, gen.target.id), False))
                    elif t.func.id == 'all' and neg:
                        facts.append((sub(t.args[0].elt, gen.target.id), True))
        # S = [float(v) for v in ...]: every element is a float (int(..) / str(..) alike)
        if isinstance(st, ast.Assign) and len(st.targets) == 1 and isinstance(st.targets[0], ast.Name) and st.targets[0].id == S \
                and isinstance(st.value, (ast.ListComp,)) or (isinstance(st, ast.Assign) and len(st.targets) == 1 and isinstance(st.targets[0], ast.Name)
                                                              and st.targets[0].id == S and isinstance(st.value, ast.Call)
                                                              and isinstance(st.value.func, ast.Name) and st.value.func.id in ('tuple', 'list')
                                                              and len(st.value.args) == 1 and isinstance(st.value.args[0], (ast.GeneratorExp, ast.ListComp))):
            comp = st.value if isinstance(st.value, ast.ListComp) else st.value.args[0]
            e = comp.elt
            if isinstance(e, ast.Call) and isinstance(e.func, ast.Name) and e.func.id in ('float', 'int', 'str') and len(e.args) == 1 and not e.keywords:
                facts.append((ast.parse(f'isinstance({y}, {e.func.id})', mode='eval').body, True))

    def walk(stmts):
        for i, st in enumerate(stmts):
            if any(x is target for x in ast.walk(st)):
                for prev in stmts[:i]:
                    if (prev.lineno, prev.col_offset) >= last_bound:        # the comprehension that binds S is its own last binding
                        from_stmt(prev)
                for fld in ('body', 'orelse', 'finalbody'):
                    subl = getattr(st, fld, None)
                    if isinstance(subl, list) and any(x is target for b in subl for x in ast.walk(b)):
                        walk(subl)
                return
    walk(fn.body)
    return facts


# ----------------------------------------------------------------------------- facts (guard subsumption)
class Facts:
    def __init__(self, prog, cls):
        self.prog = prog
        self.cls = cls
        self.atom = {}          # canonical text -> bool
        self.learned = []       # (node, truth)
        self.own = set()        # names bound to elements of the object's own containers
        self.tpos = {}          # expression text -> [frozenset of type names]: isinstance(expr, (those)) is known to hold
        self.tneg = {}          # expression text -> {type names}: isinstance(expr, T) is known not to hold

    def copy(self):
        f = Facts(self.prog, self.cls)
        f.atom = dict(self.atom)
        f.learned = list(self.learned)
        f.own = set(self.own)
        f.tpos = {k: list(v) for k, v in self.tpos.items()}
        f.tneg = {k: set(v) for k, v in self.tneg.items()}
        return f

    @staticmethod
    def _isinstance_parts(node):
        """(text of the tested expression, frozenset of type names) of an isinstance(e, T) / isinstance(e, (T1, T2)) test, or None"""
        if not (isinstance(node, ast.Call) and unparse(node.func) == 'isinstance' and len(node.args) == 2 and not node.keywords):
            return None
        t = node.args[1]
        elts = t.elts if isinstance(t, ast.Tuple) else [t]
        if not all(isinstance(e, (ast.Name, ast.Attribute)) for e in elts):
            return None
        return unparse(node.args[0]), frozenset(unparse(e) for e in elts)

    def _c(self, node):
        return canon(self.prog, self.cls, node) if self.cls else node

    def learn(self, node, truth):
        node = self._c(node)
        self.learned.append((node, truth))
        for _ in range(6):
            before = dict(self.atom)
            for (n, t) in self.learned:
                self._learn(n, t)
            if before == self.atom:
                break

    def _learn(self, node, truth):
        if isinstance(node, ast.UnaryOp) and isinstance(node.op, ast.Not):
            return self._learn(node.operand, not truth)
        if isinstance(node, ast.BoolOp):
            is_and = isinstance(node.op, ast.And)
            if is_and == truth:
                for v in node.values:
                    self._learn(v, truth)
                return
            vals = [self._ev(v) for v in node.values]
            undec = [v for v, r in zip(node.values, vals) if r is None]
            if len(undec) == 1 and all(r == (not truth) for r in vals if r is not None):
                self._learn(undec[0], truth)
            self.atom[unparse(node)] = truth
            return
        if isinstance(node, ast.Compare) and len(node.ops) == 1:
            # normalise negated comparison operators to a positive atom
            op = node.ops[0]
            neg = {ast.NotEq: ast.Eq, ast.IsNot: ast.Is, ast.NotIn: ast.In}
            if type(op) in neg:
                pos = ast.Compare(left=node.left, ops=[neg[type(op)]()], comparators=node.comparators)
                self.atom[unparse(pos)] = not truth
                return
        ip = self._isinstance_parts(node)
        if ip is not None:
            if truth:
                if ip[1] not in self.tpos.setdefault(ip[0], []):
                    self.tpos[ip[0]].append(ip[1])
            else:
                self.tneg.setdefault(ip[0], set()).update(ip[1])
        self.atom[unparse(node)] = truth

    def ev(self, node):
        node = self._c(node)
        if any(isinstance(x, ast.IfExp) for x in ast.walk(node)):
            node = _ReduceIfExp(self).visit(copy.deepcopy(node))
        return self._ev(node)

    def _ev(self, node):
        if isinstance(node, ast.UnaryOp) and isinstance(node.op, ast.Not):
            v = self._ev(node.operand)
            return None if v is None else (not v)
        if isinstance(node, ast.BoolOp):
            vs = [self._ev(v) for v in node.values]
            if isinstance(node.op, ast.And):
                if any(v is False for v in vs):
                    return False
                return True if all(v is True for v in vs) else None
            if any(v is True for v in vs):
                return True
            return False if all(v is False for v in vs) else None
        if isinstance(node, ast.Constant):
            return bool(node.value)
        t = unparse(node)
        if t in self.atom:
            return self.atom[t]
        if isinstance(node, ast.Compare) and len(node.ops) == 1 and isinstance(node.left, ast.Constant) \
                and isinstance(node.comparators[0], ast.Constant):
            a, b = node.left.value, node.comparators[0].value
            import operator as _o
            fn = {ast.Eq: _o.eq, ast.NotEq: _o.ne, ast.Is: _o.eq, ast.IsNot: _o.ne, ast.Lt: _o.lt, ast.LtE: _o.le,
                  ast.Gt: _o.gt, ast.GtE: _o.ge}.get(type(node.ops[0]))
            try:
                return None if fn is None else bool(fn(a, b))
            except TypeError:
                return None
        if isinstance(node, ast.Call) and unparse(node.func) == 'isinstance' and node.args and isinstance(node.args[0], ast.Constant) \
                and node.args[0].value is None:
            return False
        if isinstance(node, ast.Compare) and len(node.ops) == 1:
            op = node.ops[0]
            neg = {ast.NotEq: ast.Eq, ast.IsNot: ast.Is, ast.NotIn: ast.In}
            if type(op) in neg:
                pos = unparse(ast.Compare(left=node.left, ops=[neg[type(op)]()], comparators=node.comparators))
                if pos in self.atom:
                    return not self.atom[pos]
            # == None and `is None` are interchangeable
            if isinstance(op, (ast.Eq, ast.Is)) and isinstance(node.comparators[0], ast.Constant) and node.comparators[0].value is None:
                for alt in (ast.Eq, ast.Is):
                    k = unparse(ast.Compare(left=node.left, ops=[alt()], comparators=node.comparators))
                    if k in self.atom:
                        return self.atom[k]
            # complementary orderings: a < b known false  =>  a >= b true, etc.
            comp = {ast.Lt: ast.GtE, ast.GtE: ast.Lt, ast.Gt: ast.LtE, ast.LtE: ast.Gt}
            if type(op) in comp:
                k = unparse(ast.Compare(left=node.left, ops=[comp[type(op)]()], comparators=node.comparators))
                if k in self.atom:
                    return not self.atom[k]
        if isinstance(node, ast.Call) and unparse(node.func) == 'isinstance' and node.args and isinstance(node.args[0], ast.Name) \
                and node.args[0].id in self.own:
            return True
        if isinstance(node, ast.Call) and unparse(node.func) == 'isinstance' and len(node.args) == 2 and isinstance(node.args[0], ast.Call) \
                and isinstance(node.args[0].func, ast.Name) and node.args[0].func.id in self.prog.classes:
            # isinstance(C(..), T): a new object of a program class, decided by the MRO of C (for the T that are program classes / builtins)
            mro = set(self.prog.mro(node.args[0].func.id))
            tn = [unparse(t) for t in (node.args[1].elts if isinstance(node.args[1], ast.Tuple) else [node.args[1]])]
            if any(t in mro for t in tn):
                return True
            if all(t in self.prog.classes or t in ('type', 'str', 'int', 'float', 'bool', 'dict', 'list', 'tuple', 'set') for t in tn):
                return False
        ip = self._isinstance_parts(node)
        if ip is not None:
            # an instance of one of (A, B) is an instance of one of any larger tuple; not an instance of any of a tuple all of whose members are excluded
            if any(p <= ip[1] for p in self.tpos.get(ip[0], ())):
                return True
            if ip[1] <= self.tneg.get(ip[0], set()):
                return False
        return None


class _ReduceIfExp(ast.NodeTransformer):
    """`(a if t else b)` with t decided by the facts is a / b"""

    def __init__(self, facts):
        self.facts = facts

    def visit_IfExp(self, n):
        n.test = self.visit(n.test)
        t = self.facts._ev(n.test)
        if t is True:
            return self.visit(n.body)
        if t is False:
            return self.visit(n.orelse)
        n.body, n.orelse = self.visit(n.body), self.visit(n.orelse)
        return n


def resolve_locals(fn, target_stmt):
    """{local name: expression over the values the parameters had at entry} for the locals bound by the statements of fn's body that precede the
    top-level statement containing `target_stmt`: plain assignments `t = e` and conditional re-bindings `if c: t = e` (no else) become
    `e` / `(e if c else <previous t>)`; e and c read names only (no fields, no subscripts), constructor calls of those allowed.  A name
    bound in any other way is left out (conditions on it stay as they are)."""
    env, killed = {}, set()

    def pure(e):
        for x in ast.walk(e):
            if isinstance(x, (ast.Attribute, ast.Subscript, ast.NamedExpr, ast.Await, ast.Yield, ast.YieldFrom, ast.Lambda, ast.ListComp, ast.SetComp,
                              ast.DictComp, ast.GeneratorExp, ast.Starred)):
                return False
            if isinstance(x, ast.Call) and not isinstance(x.func, ast.Name):
                return False
        return True

    def sub(e):
        return Subst({k: v for k, v in env.items() if k not in killed}).visit(copy.deepcopy(e))

    def kill(st):
        for x in ast.walk(st):
            if isinstance(x, ast.Name) and isinstance(x.ctx, (ast.Store, ast.Del)):
                killed.add(x.id)
                env.pop(x.id, None)

    for st in fn.body:
        if any(x is target_stmt for x in ast.walk(st)):
            break
        if isinstance(st, ast.AnnAssign) and st.value is not None and isinstance(st.target, ast.Name):
            tgt, val = st.target, st.value
        elif isinstance(st, ast.Assign) and len(st.targets) == 1 and isinstance(st.targets[0], ast.Name):
            tgt, val = st.targets[0], st.value
        else:
            tgt = None
        if tgt is not None:
            if pure(val) and not any(isinstance(x, ast.Name) and x.id in killed for x in ast.walk(val)):
                env[tgt.id] = sub(val)
                killed.discard(tgt.id)
            else:
                kill(st)
            continue
        if isinstance(st, ast.If) and not st.orelse and st.body and all(
                isinstance(b, ast.Assign) and len(b.targets) == 1 and isinstance(b.targets[0], ast.Name) for b in st.body):
            if pure(st.test) and all(pure(b.value) for b in st.body) and not any(
                    isinstance(x, ast.Name) and x.id in killed for b in [st.test] + [b.value for b in st.body] for x in ast.walk(b)):
                test = sub(st.test)
                inner = dict(env)
                for b in st.body:
                    t_ = b.targets[0].id
                    val = Subst({k: v for k, v in inner.items() if k not in killed}).visit(copy.deepcopy(b.value))
                    inner[t_] = val
                for b in st.body:
                    t_ = b.targets[0].id
                    prev = env.get(t_, ast.Name(id=t_, ctx=ast.Load()))
                    env[t_] = ast.IfExp(test=copy.deepcopy(test), body=inner[t_], orelse=copy.deepcopy(prev))
            else:
                kill(st)
            continue
        kill(st)
    return {k: v for k, v in env.items() if k not in killed}


class Subst(ast.NodeTransformer):
    def __init__(self, m):
        self.m = m

    def visit_Name(self, n):
        return copy.deepcopy(self.m[n.id]) if n.id in self.m else n


class Rewrite(ast.NodeTransformer):
    """replace sub-expressions by their known equals: {unparsed text: expr}"""

    def __init__(self, m):
        self.m = m

    def visit_Attribute(self, n):
        t = unparse(n)
        if t in self.m and isinstance(n.ctx, ast.Load):
            return copy.deepcopy(self.m[t])
        return self.generic_visit(n)


def bind_args(fn, call, kind):
    """parameter name -> actual argument ast (defaults used for missing ones)"""
    params = [a.arg for a in fn.args.args]
    if params and params[0] in ('self', 'cls'):
        params = params[1:]
    args = list(call.args[1:] if kind == 'base' else call.args)
    m = {}
    for p, a in zip(params, args):
        if not isinstance(a, ast.Starred):
            m[p] = a
    for kw in call.keywords:
        if kw.arg is not None:
            m[kw.arg] = kw.value
    defaults = fn.args.defaults
    allp = [a.arg for a in fn.args.args]
    for p, d in zip(allp[len(allp) - len(defaults):], defaults):
        m.setdefault(p, d)
    for a, d in zip(fn.args.kwonlyargs, fn.args.kw_defaults):
        if d is not None:
            m.setdefault(a.arg, d)
    return m


class RaiseSite:
    __slots__ = ('text', 'where', 'lineno', 'file', 'conds', 'chain', 'node')

    def __init__(self, text, where, lineno, file, conds, chain, node):
        self.text, self.where, self.lineno, self.file = text, where, lineno, file
        self.conds = conds          # [(ast cond, truth)] in the terms of the function being summarised
        self.chain = chain          # call chain from the summarised function down to the raise
        self.node = node


class Violation:
    def __init__(self, entry, site: RaiseSite, effect, effect_where, effect_line):
        self.entry, self.site, self.effect, self.effect_where, self.effect_line = entry, site, effect, effect_where, effect_line


class RBE:
    """refuse-before-effect analysis with context-independent summaries and guard-subsumption filtering"""

    MAX_DEPTH = 6

    def __init__(self, prog: Program, effects: Effects = None, ignore_effect=None, inline_filter=None):
        self.prog = prog
        self.eff = effects or Effects(prog)
        self.summ = {}
        self.ignore_effect = ignore_effect or (lambda kind, text, node=None: False)
        self.inline_filter = inline_filter or (lambda cls, name: True)
        self.depth_exceeded = []
        self.filtered = []          # (call site, raise text) discarded as infeasible -- reported in the evidence
        self._writes = {}

    # transitive set of self-field names written by cls.fn (for invalidating facts)
    def writes_of(self, cls, def_cls, fn, _seen=None):
        key = (cls, def_cls, fn.name)
        if key in self._writes:
            return self._writes[key]
        _seen = _seen or set()
        if key in _seen:
            return set()
        _seen.add(key)
        out = set()
        for n in walk_shallow(fn):
            if isinstance(n, ast.Attribute) and isinstance(n.ctx, (ast.Store, ast.Del)) and root_name(n) == 'self':
                x = n
                while isinstance(x.value, ast.Attribute):
                    x = x.value
                out.add(x.attr)
            elif isinstance(n, ast.Call):
                sc = self_call_kind(n, self.prog)
                if sc and sc[1] not in FIRES:
                    dc, f2 = self._resolve(cls, def_cls, sc)
                    if f2 is not None:
                        out |= self.writes_of(cls, dc.name, f2, _seen)
                elif isinstance(n.func, ast.Attribute) and root_name(n.func.value) == 'self' and isinstance(n.func.value, ast.Attribute):
                    x = n.func.value
                    while isinstance(x.value, ast.Attribute):
                        x = x.value
                    if n.func.attr in CONTAINER_MUTATORS | THREAD_EVENT_MUTATORS:
                        out.add(x.attr)
        self._writes[key] = out
        return out

    def _resolve(self, cls, def_cls, sc):
        kind, name, base = sc
        if kind == 'self':
            return self.prog.resolve(cls, name)
        if kind == 'super':
            return self.prog.resolve(cls, name, after=def_cls)
        return self.prog.resolve(base, name)

    def facts_at(self, cls, def_cls, fn, g: CFG, node):
        """facts established on every path to node (dominating branch conditions whose fields are not rewritten in between)"""
        f = Facts(self.prog, cls)
        for (c, branch) in g.guard_branches(node):
            between = g.reachable_from(c, avoid=(node,))
            written = set()
            for nid in between:
                bn = g.nodes[nid]
                if bn.ast is None or bn is node:
                    continue
                if not g.reaches(bn, node) and bn is not node:
                    continue
                for n in walk_shallow(bn.ast):
                    if isinstance(n, ast.Attribute) and isinstance(n.ctx, (ast.Store, ast.Del)) and root_name(n) == 'self':
                        x = n
                        while isinstance(x.value, ast.Attribute):
                            x = x.value
                        written.add(x.attr)
                    elif isinstance(n, ast.Call):
                        sc = self_call_kind(n, self.prog)
                        if sc and sc[1] not in FIRES:
                            dc, f2 = self._resolve(cls, def_cls, sc)
                            if f2 is not None:
                                written |= self.writes_of(cls, dc.name, f2)
            ctext = unparse(canon(self.prog, cls, c.ast))
            if any(('self.' + w) in ctext or ('self.' + mangle(def_cls, w)) in ctext for w in written):
                continue
            f.learn(c.ast, branch)
        # a validating call that returned normally has established the negation of each of its refusal guards: `self._check(a, b)`
        # (no effects, `if G: raise` at the top of the callee) dominating this node makes G(a, b) false here
        if not getattr(self, '_in_post_facts', False):
            self._in_post_facts = True
            try:
                dom = g.dominators()[node.id]
                for mid in sorted(dom):
                    m = g.nodes[mid]
                    if m is node or m.ast is None or m.kind != 'stmt' or not (isinstance(m.ast, ast.Expr) and isinstance(m.ast.value, ast.Call)):
                        continue
                    c = m.ast.value
                    sc = self_call_kind(c, self.prog)
                    if not sc or sc[1] in FIRES:
                        continue
                    dc, f2 = self._resolve(cls, def_cls, sc)
                    if f2 is None or f2 is fn:
                        continue
                    s2 = self.summary(cls, dc.name, f2, 1)
                    if s2.get('dirty_ret') is not None or not s2.get('raises'):
                        continue
                    bm = bind_args(f2, c, sc[0])
                    # names / fields the guards read must be unchanged between the call and this node
                    between = g.reachable_from(m, avoid=(node,))
                    stored = set()
                    for nid in between:
                        bn = g.nodes[nid]
                        if bn.ast is None or bn is node or bn is m:
                            continue
                        for x in walk_shallow(bn.ast):
                            if isinstance(x, ast.Name) and isinstance(x.ctx, (ast.Store, ast.Del)):
                                stored.add(x.id)
                            elif isinstance(x, ast.Attribute) and isinstance(x.ctx, (ast.Store, ast.Del)):
                                stored.add(x.attr)
                    for rs in sorted(s2['raises'], key=lambda r: len(r.conds)) * 2:
                        if not rs.conds:
                            continue
                        cds = [(Subst(bm).visit(copy.deepcopy(cd)), tr) for (cd, tr) in rs.conds]
                        names = {x.id for (cd2, _t) in cds for x in ast.walk(cd2) if isinstance(x, ast.Name)} | \
                            {x.attr for (cd2, _t) in cds for x in ast.walk(cd2) if isinstance(x, ast.Attribute)}
                        if names & stored:
                            continue
                        # the guards before the last one are the earlier refusals not taken: when they are already known to hold, the call
                        # reached the last guard, and since it returned normally that guard did not fire
                        if all(f.ev(cd2) is tr for (cd2, tr) in cds[:-1]):
                            f.learn(cds[-1][0], not cds[-1][1])
            finally:
                self._in_post_facts = False
        # a dominating `if C: B` without else whose condition is known to hold HERE, while nothing C reads is bound between the `if` and this node
        # except inside B: had B been skipped, C would still be false here -- so B ran, and what holds at the end of B (about names not bound
        # afterwards) holds here.  `v = t` as the last statement of B hands the facts about t on to v.
        if node.ast is not None and not getattr(self, '_in_body_facts', False):
            self._in_body_facts = True
            try:
                dom_ids = g.dominators()[node.id]
                for st in ast.walk(fn):
                    if not (isinstance(st, ast.If) and not st.orelse and st.body and not any(x is node.ast for x in ast.walk(st))):
                        continue
                    cn = [g.nodes[i] for i in dom_ids if g.nodes[i].ast is st.test]
                    if not cn or any(isinstance(x, (ast.Return, ast.Break, ast.Continue)) for b in st.body for x in ast.walk(b)):
                        continue
                    cnames = {x.id for x in ast.walk(st.test) if isinstance(x, ast.Name)}
                    if any(isinstance(x, (ast.Attribute, ast.Subscript, ast.Call)) and not (isinstance(x, ast.Call) and isinstance(x.func, ast.Name))
                           for x in ast.walk(st.test)):
                        continue
                    body_nodes = {id(x) for b in st.body for x in ast.walk(b)}
                    stored_after = set()
                    for nid in g.reachable_from(cn[0], avoid=(node,)):
                        bn = g.nodes[nid]
                        if bn.ast is None or bn is node or id(bn.ast) in body_nodes or not g.reaches(bn, node):
                            continue
                        for x in walk_shallow(bn.ast):
                            if isinstance(x, ast.Name) and isinstance(x.ctx, (ast.Store, ast.Del)):
                                stored_after.add(x.id)
                    if cnames & stored_after or f.ev(st.test) is not True:
                        continue
                    last = st.body[-1]
                    ln = g.node_for(last)
                    if ln is None:
                        continue
                    fb = self.facts_at(cls, def_cls, fn, g, ln)
                    ren = {}
                    dropped = set()
                    if isinstance(last, ast.Assign) and len(last.targets) == 1 and isinstance(last.targets[0], ast.Name):
                        dropped.add(last.targets[0].id)
                        if isinstance(last.value, ast.Name):
                            ren = {last.value.id: ast.Name(id=last.targets[0].id, ctx=ast.Load())}
                    elif not isinstance(last, (ast.If, ast.Pass, ast.Expr)):
                        continue
                    for (cd, tr) in list(fb.learned):
                        names = {x.id for x in ast.walk(cd) if isinstance(x, ast.Name)}
                        if any(isinstance(x, (ast.Attribute, ast.Subscript)) for x in ast.walk(cd)):
                            continue                     # facts about fields are not carried over
                        if ren:
                            if not (names & set(ren)):
                                continue
                            cd2 = Subst(ren).visit(copy.deepcopy(cd))
                            names2 = {x.id for x in ast.walk(cd2) if isinstance(x, ast.Name)}
                            if (names2 - {last.targets[0].id}) & (dropped | stored_after):
                                continue
                            if last.targets[0].id in stored_after:
                                continue
                            f.learn(cd2, tr)
                        elif not (names & (dropped | stored_after)):
                            f.learn(cd, tr)
            finally:
                self._in_body_facts = False
        # elements of a local sequence that was checked as a whole: `for x in S: if C(x): raise` / `if any(C(x) for x in S): raise` /
        # `if not all(P(x) for x in S): raise` earlier in an enclosing block, S bound once and never mutated in this function; inside a later
        # `for y in S:` the checks hold of y.  `S = [float(v) for v in S0]` makes every element a float.
        if node.ast is not None:
            for (S, y) in enclosing_name_loops(fn, node.ast):
                for cond, truth in validated_element_facts(fn, S, y, node.ast):
                    f.learn(cond, truth)
        # loop variables ranging over the object's own containers
        for st in ast.walk(fn):
            if isinstance(st, ast.For) and 'self.' in unparse(st.iter):
                # `for k in self.F` / `for k, v in self.F.items()`: keys and values of the object's own containers alike
                tnames = [st.target.id] if isinstance(st.target, ast.Name) else (
                    [t.id for t in st.target.elts if isinstance(t, ast.Name)] if isinstance(st.target, (ast.Tuple, ast.List)) else [])
                if not tnames:
                    continue
                if any(x is node.ast or (node.ast is not None and any(y is node.ast for y in ast.walk(x))) for x in st.body):
                    f.own.update(tnames)
                else:
                    for x in st.body:
                        if node.ast is not None and any(y is node.ast for y in ast.walk(x)):
                            f.own.update(tnames)
        return f

    def summary(self, cls, def_cls, fn, depth=0):
        key = (cls, def_cls, fn.name)
        if key in self.summ:
            return self.summ[key]
        self.summ[key] = {'raises': [], 'dirty_ret': None, 'viol': []}       # recursion guard
        ci = self.prog.classes.get(def_cls)
        file = ci.file if ci else '?'
        g = CFG(fn)
        dirty = {g.entry.id: None}          # node id -> witness (None = clean); absent = unreached
        work = [g.entry]
        raises = []
        viol = []
        dirty_ret = None
        raise_seen = set()
        reach_count = {}
        while work:
            n = work.pop()
            wit = dirty.get(n.id, None)
            out = wit
            if n.ast is not None and n.kind in ('stmt', 'cond', 'for', 'with'):
                a = n.ast
                if isinstance(a, ast.Raise):
                    conds = [(c.ast, br) for (c, br) in g.guard_branches(n)]
                    loc = resolve_locals(fn, a)
                    if loc and any(isinstance(x, ast.Name) and x.id in loc for (cd, _b) in conds if cd is not None for x in ast.walk(cd)):
                        # a guard on a local that is a copy (or a conditional re-binding) of a parameter is a guard on the parameter
                        conds = [(ast.fix_missing_locations(Subst(loc).visit(copy.deepcopy(cd))) if cd is not None else cd, b) for (cd, b) in conds]
                    rs = RaiseSite(short(a, 70), f'{def_cls}.{fn.name}', a.lineno, file, conds, [f'{def_cls}.{fn.name}'], a)
                    if id(a) not in raise_seen:
                        raise_seen.add(id(a))
                        raises.append(rs)
                    if wit is not None:
                        viol.append((rs, wit))
                else:
                    inl = []
                    for c in [x for x in walk_shallow(a) if isinstance(x, ast.Call)]:
                        sc = self_call_kind(c, self.prog)
                        if not sc or sc[1] in FIRES:
                            continue
                        dc, f2 = self._resolve(cls, def_cls, sc)
                        if f2 is None or not self.inline_filter(dc.name, sc[1]):
                            continue
                        inl.append(c)
                        if depth >= self.MAX_DEPTH:
                            self.depth_exceeded.append(f'{def_cls}.{fn.name} -> {dc.name}.{sc[1]}')
                            continue
                        s2 = self.summary(cls, dc.name, f2, depth + 1)
                        for (rs, w) in s2['viol']:
                            k = ('inner', id(rs.node), w[1], w[2])
                            if k not in raise_seen:
                                raise_seen.add(k)
                                viol.append((RaiseSite(rs.text, rs.where, rs.lineno, rs.file, rs.conds,
                                                       [f'{def_cls}.{fn.name}:{c.lineno}'] + rs.chain, rs.node), w))
                        if s2['raises']:
                            facts = self.facts_at(cls, def_cls, fn, g, n)
                            m = bind_args(f2, c, sc[0])
                            rw = self.rewrites_at(cls, def_cls, fn, g, n)
                            for rs in s2['raises']:
                                conds = [(Subst(m).visit(copy.deepcopy(cd)), tr) for (cd, tr) in rs.conds]
                                if rw:
                                    conds = [(Rewrite(rw).visit(canon(self.prog, cls, cd)), tr) for (cd, tr) in conds]
                                if not self.feasible(facts, conds):
                                    self.filtered.append(f'{def_cls}.{fn.name}:{c.lineno} -> {rs.where}: {rs.text}')
                                    continue
                                local = [(cn.ast, br) for (cn, br) in g.guard_branches(n)]
                                rs2 = RaiseSite(rs.text, rs.where, rs.lineno, rs.file, local + conds,
                                                [f'{def_cls}.{fn.name}:{c.lineno}'] + rs.chain, rs.node)
                                k = (id(rs.node), c.lineno)
                                if k not in raise_seen:
                                    raise_seen.add(k)
                                    raises.append(rs2)
                                if out is not None:
                                    viol.append((rs2, out))
                        if s2['dirty_ret'] is not None and out is None:
                            out = (f'{s2["dirty_ret"][0]}', s2['dirty_ret'][1], s2['dirty_ret'][2],
                                   [f'{def_cls}.{fn.name}:{c.lineno}'] + s2['dirty_ret'][3])
                    effs = [e for e in self.eff.of(a, skip_calls=inl) if not self.ignore_effect(e[0], e[1], e[2])]
                    # a store into an object that was passed in (a parameter other than self) is visible to the caller as well
                    pnames = {x.arg for x in fn.args.args[1:]} | {x.arg for x in fn.args.kwonlyargs}
                    for x in walk_shallow(a):
                        if isinstance(x, (ast.Attribute, ast.Subscript)) and isinstance(x.ctx, (ast.Store, ast.Del)) and root_name(x) in pnames \
                                and not self.ignore_effect('write', unparse(x), x):
                            effs.append(('write', unparse(x), x))
                    if effs and out is None:
                        e = effs[0]
                        out = (f'{e[0]} {e[1]}', f'{def_cls}.{fn.name}', getattr(e[2], 'lineno', a.lineno), [])
            for (s, lab) in n.succ:
                if s is g.exit and out is not None and dirty_ret is None:
                    dirty_ret = out
                cur_known = s.id in dirty
                cur = dirty.get(s.id)
                if not cur_known or (out is not None and cur is None):
                    dirty[s.id] = out
                    work.append(s)
        res = {'raises': raises, 'dirty_ret': dirty_ret, 'viol': viol, 'post_eq': self._post_equalities(cls, def_cls, fn, g)}
        self.summ[key] = res
        return res

    def _post_equalities(self, cls, def_cls, fn, g):
        """fields that, on every normal return of fn, hold the value of an expression over fn's parameters:
        {field: expr}.  `self.F = <expr over parameters>` on every normal path with no later write of F."""
        params = {a.arg for a in fn.args.args[1:]} | {a.arg for a in fn.args.kwonlyargs}
        out = {}
        NORMAL = ('exc', 'raise', 'reraise')
        for n in g.stmt_nodes():
            a = n.ast
            if not (n.kind == 'stmt' and isinstance(a, ast.Assign) and len(a.targets) == 1 and is_self_attr(a.targets[0])):
                continue
            names = {x.id for x in ast.walk(a.value) if isinstance(x, ast.Name)}
            if not names or not names <= params or any(isinstance(x, ast.Call) for x in ast.walk(a.value)):
                continue
            F = a.targets[0].attr
            if g.reaches(g.entry, g.exit, avoid=[n], labels_excluded=NORMAL):
                continue                    # not on every normal path
            later = False
            for nid in g.reachable_from(n):
                m = g.nodes[nid]
                if m.ast is None:
                    continue
                for x in walk_shallow(m.ast):
                    if isinstance(x, ast.Attribute) and isinstance(x.ctx, (ast.Store, ast.Del)) and root_name(x) == 'self':
                        y = x
                        while isinstance(y.value, ast.Attribute):
                            y = y.value
                        if y.attr == F and not (m is n):
                            later = True
                    elif isinstance(x, ast.Call):
                        sc = self_call_kind(x, self.prog)
                        if sc and sc[1] not in FIRES:
                            dc, f2 = self._resolve(cls, def_cls, sc)
                            if f2 is not None and F in self.writes_of(cls, dc.name, f2):
                                later = True
                    # a parameter re-assigned later would also break the equality
                    elif isinstance(x, ast.Name) and isinstance(x.ctx, ast.Store) and x.id in names:
                        later = True
            if not later:
                out[F] = a.value
        return out

    def rewrites_at(self, cls, def_cls, fn, g, node):
        """{canonical `self.F` text: expr} established by self/super calls that dominate node, with F not written since"""
        out = {}
        for c in g.stmt_nodes():
            if c is node or c.ast is None or not g.dominates(c, node):
                continue
            for call in [x for x in walk_shallow(c.ast) if isinstance(x, ast.Call)]:
                sc = self_call_kind(call, self.prog)
                if not sc or sc[1] in FIRES:
                    continue
                dc, f2 = self._resolve(cls, def_cls, sc)
                if f2 is None:
                    continue
                s2 = self.summ.get((cls, dc.name, f2.name))
                if not s2 or not s2.get('post_eq'):
                    continue
                m = bind_args(f2, call, sc[0])
                for F, expr in s2['post_eq'].items():
                    # F not written between the call and node
                    clobbered = False
                    for nid in g.reachable_from(c, avoid=(node,)):
                        b = g.nodes[nid]
                        if b.ast is None or not g.reaches(b, node):
                            continue
                        for x in walk_shallow(b.ast):
                            if isinstance(x, ast.Attribute) and isinstance(x.ctx, (ast.Store, ast.Del)) and is_self_attr(x, F):
                                clobbered = True
                            elif isinstance(x, ast.Call):
                                sk = self_call_kind(x, self.prog)
                                if sk and sk[1] not in FIRES:
                                    d3, f3 = self._resolve(cls, def_cls, sk)
                                    if f3 is not None and F in self.writes_of(cls, d3.name, f3):
                                        clobbered = True
                    if not clobbered:
                        out[f'self.{F}'] = Subst(m).visit(copy.deepcopy(expr))
        return out

    @staticmethod
    def feasible(facts: Facts, conds):
        f = facts.copy()
        for (cd, tr) in conds:
            v = f.ev(cd)
            if v is not None and v != tr:
                return False
            f.learn(cd, tr)
        return True

    def check(self, cls, mname):
        """-> (summary, [Violation]) for command cls.mname"""
        dc, fn = self.prog.resolve(cls, mname)
        if fn is None:
            raise AnalysisError(f'anchor vanished: {cls}.{mname}')
        s = self.summary(cls, dc.name, fn)
        out = []
        for (rs, wit) in s['viol']:
            out.append(Violation(f'{cls}.{mname}', rs, wit[0], wit[1], wit[2]))
        return s, out
