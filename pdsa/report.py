"""E8 -- findings, obligations, known-findings file, evidence writer."""
from __future__ import annotations

import hashlib
import json
import os
import re
import time

from .core import AnalysisError, Program, short

VERIF = os.path.dirname(os.path.dirname(os.path.abspath(__file__)))
KNOWN_FILE = os.path.join(VERIF, 'KNOWN_FINDINGS.txt')
EVIDENCE_DIR = os.path.join(VERIF, 'evidence')
REPLAY_DIR = os.path.join(VERIF, 'out', 'replay')


class Finding:
    def __init__(self, prop, rule, key, file, line, where, construct, message, extra=None):
        self.prop = prop
        self.rule = rule
        self.key = key              # stable, no line numbers
        self.file = file
        self.line = line
        self.where = where
        self.construct = construct
        self.message = message
        self.extra = extra or {}

    def as_dict(self):
        return {'property': self.prop, 'rule': self.rule, 'key': self.key,
                'location': f'{self.file}:{self.line}', 'function': self.where,
                'construct': self.construct, 'message': self.message, **({'detail': self.extra} if self.extra else {})}

    def text(self):
        return f'{self.rule} {self.file}:{self.line} {self.where}: {self.message} [{self.construct}] key={self.key}'


class Ctx:
    """Per-check accumulator handed to every rule."""

    def __init__(self, prop, prog: Program, tier='quick'):
        self.prop = prop
        self.prog = prog
        self.tier = tier
        self.findings = []
        self._keys = set()
        self.obligations = 0
        self.discharged = 0
        self.evaluations = 0          # constructs examined
        self.instances = {}           # rule -> set of distinct non-trivial instance labels
        self.samples = []
        self.rules_run = []
        self.notes = []
        self.assumptions = []
        self.trusted = []
        self.modules_used = set()
        self.exhaustive = {}
        self.extra = {}

    # -- bookkeeping
    def rule(self, rid, text):
        self.rules_run.append({'rule': rid, 'what': text})

    def examined(self, n=1):
        self.evaluations += n

    def ob(self, rule, label, ok, sample=None):
        """record one obligation (a distinct, non-trivial rule instance) and whether it is discharged"""
        self.obligations += 1
        self.evaluations += 1
        self.instances.setdefault(rule, set()).add(label)
        if ok:
            self.discharged += 1
        if sample is not None and len(self.samples) < 40:
            self.samples.append(f'{rule}: {sample}')
        return ok

    def sample(self, text):
        if len(self.samples) < 40:
            self.samples.append(text)

    def note(self, text):
        self.notes.append(text)

    def assume(self, text):
        if text not in self.assumptions:
            self.assumptions.append(text)

    def trust(self, text):
        if text not in self.trusted:
            self.trusted.append(text)

    def uses(self, *modules):
        self.modules_used.update(modules)

    def floor(self, rule, what, count, minimum):
        """instance floor: a rule that finds fewer instances than were confirmed by hand would pass vacuously.  The failure is
        recorded; the run ends as ANALYSIS-ERROR unless some rule has reported a (new) finding, which is a verdict of its own."""
        if count < minimum:
            if not hasattr(self, 'floor_failures'):
                self.floor_failures = []
            self.floor_failures.append(f'{rule}: {what}: {count} instances found, hand-confirmed floor is {minimum} '
                                       f'(rule would pass vacuously)')

    def finding(self, rule, key, ci, node, message, construct=None, where=None, extra=None, module=None):
        """report a violated rule instance.  ci = ClassInfo (or None with module=), node = ast node for position"""
        k = f'{rule}:{key}'
        if k in self._keys:
            return
        self._keys.add(k)
        file = (ci.file if ci is not None else (module.name + '.py' if module is not None else '?'))
        line = getattr(node, 'lineno', 0) if node is not None else 0
        if construct is None:
            construct = short(node) if node is not None else ''
        self.findings.append(Finding(self.prop, rule, k, file, line, where or (ci.name if ci else ''), construct, message, extra))


# ----------------------------------------------------------------- known findings
_KNOWN_RE = re.compile(r'^known:\s+property=(\S+)\s+key=(\S+)\s+(.*)$')
_FIXED_RE = re.compile(r'^fixed:\s+property=(\S+)\s+(\S+)\s+(.*)$')


def load_known(path=KNOWN_FILE):
    known = {}
    fixed = []
    if not os.path.exists(path):
        return known, fixed
    with open(path, encoding='utf-8') as fh:
        for ln in fh:
            ln = ln.rstrip('\n')
            if not ln.strip() or ln.lstrip().startswith('#'):
                continue
            m = _KNOWN_RE.match(ln)
            if m:
                known[(m.group(1), m.group(2))] = m.group(3)
                continue
            m = _FIXED_RE.match(ln)
            if m:
                fixed.append((m.group(1), m.group(2), m.group(3)))
                continue
            raise AnalysisError(f'KNOWN_FINDINGS.txt: unparsable line: {ln[:80]}')
    return known, fixed


# ----------------------------------------------------------------- evidence
def write_evidence(ctx: Ctx, wall, seed, violations, known_hits, selftest=None, explanation=''):
    os.makedirs(EVIDENCE_DIR, exist_ok=True)
    distinct = sum(len(v) for v in ctx.instances.values())
    cov = {
        'explanation': explanation,
        'rules': ctx.rules_run,
        'obligations': ctx.obligations,
        'discharged': ctx.discharged,
        'evaluations': max(ctx.evaluations, 1),
        'distinct_nontrivial': distinct,
        'rule': 'one evaluation = one construct examined by a rule (call site, guard, table entry, path, '
                'abstract state); distinct_nontrivial = distinct rule instances that had something to decide '
                '(counted as distinct (rule, instance-label) pairs)',
        'instances_per_rule': {r: len(v) for r, v in sorted(ctx.instances.items())},
        'samples': ctx.samples[:40] or ['(no instances)'],
        'checker_cmd': f'./check {ctx.prop} --tier {ctx.tier}',
        'trusted_base': ctx.trusted,
        'exhaustive_over': ctx.exhaustive,
        'exhaustive': bool(ctx.exhaustive) and all(ctx.exhaustive.values()),
        'analysed_root': ctx.prog.root,
        'analysed_modules': sorted(ctx.modules_used or ctx.prog.modules),
        'source_digest': ctx.prog.digest(ctx.modules_used or None),
        'known_findings_reported': known_hits,
        'notes': ctx.notes,
    }
    cov.update(ctx.extra)
    if selftest is not None:
        cov['selftest'] = selftest
    ev = {
        'property_id': ctx.prop,
        'tier': ctx.tier,
        'seed': seed,
        'level': 'other',
        'coverage': cov,
        'assumptions': ctx.assumptions,
        'wall_s': round(wall, 3),
        'violations': violations,
    }
    path = os.path.join(EVIDENCE_DIR, f'{ctx.prop}.json')
    tmp = path + '.tmp'
    with open(tmp, 'w', encoding='utf-8') as fh:
        json.dump(ev, fh, indent=1, ensure_ascii=False, sort_keys=False)
        fh.write('\n')
    os.replace(tmp, path)
    return path


def write_replay(f: Finding):
    os.makedirs(REPLAY_DIR, exist_ok=True)
    h = hashlib.sha1(f.key.encode()).hexdigest()[:10]
    path = os.path.join(REPLAY_DIR, f'{f.prop}-{h}.json')
    with open(path, 'w', encoding='utf-8') as fh:
        json.dump(f.as_dict(), fh, indent=1, ensure_ascii=False)
        fh.write('\n')
    return path
