"""Constant folding of calls of pure, table-building helper functions (normaliser pass N1c).

A *new* module-level function whose body uses only: assignments to locals, tuple unpacking, `for <targets> in <literal tuple / list>`,
`if` on comparisons of constants, item stores into local dicts / appends to local lists, string concatenation / f-strings / arithmetic of
constants, and `return` of locals -- called in a class body or at module level with literal arguments -- denotes a constant.  The call is
replaced by that constant (dict / tuple / list displays), so that the table rules (E6) see the tables they would see had the author written
them out.  This is compile-time evaluation of a closed constant expression: no program state, no input, a step bound; anything outside the
subset leaves the call alone.
"""
from __future__ import annotations

import ast


class NotConstant(Exception):
    pass


class _Ret(Exception):
    def __init__(self, v):
        self.v = v


MAX_STEPS = 20000


class Sym:
    """an opaque dotted name (`StatEvents.MEAN_EVENT`): carried around, never computed with"""
    def __init__(self, node):
        self.node = node

    def __eq__(self, o):
        return isinstance(o, Sym) and ast.dump(self.node) == ast.dump(o.node)

    def __hash__(self):
        return hash(ast.dump(self.node))


class Closure:
    """a lambda created while a constant is built.  Defaults are evaluated when the lambda is created; a free variable is looked up
    when the lambda is *called* -- for a constant built at import time that is after the building expression has finished, so the
    variable has the last value its scope gave it (`env` is the live scope, shared by all iterations of a comprehension)."""
    def __init__(self, node, env, defaults):
        self.node, self.env, self.defaults = node, env, defaults


class _Scope(dict):
    """a comprehension scope: own variables + the enclosing scope for lookups"""
    def __init__(self, parent):
        super().__init__()
        self.parent = parent

    def lookup(self, k):
        s = self
        while s is not None:
            if dict.__contains__(s, k):
                return True, dict.__getitem__(s, k)
            s = getattr(s, 'parent', None)
        return False, None


class Folder:
    def __init__(self, consts):
        self.consts = consts          # module-level constant name -> python value
        self.steps = 0

    def call(self, fn, args):
        a = fn.args
        if a.vararg or a.kwarg or a.kwonlyargs or a.posonlyargs or fn.decorator_list:
            raise NotConstant('signature')
        params = [x.arg for x in a.args]
        defaults = [None] * (len(params) - len(a.defaults)) + list(a.defaults)
        env = {}
        for i, p in enumerate(params):
            if i < len(args):
                env[p] = args[i]
            elif defaults[i] is not None:
                env[p] = self.ev(defaults[i], {})
            else:
                raise NotConstant('missing argument')
        try:
            self.block(fn.body, env)
        except _Ret as r:
            return r.v
        return None

    def block(self, stmts, env):
        for st in stmts:
            self.steps += 1
            if self.steps > MAX_STEPS:
                raise NotConstant('step bound')
            if isinstance(st, ast.Expr):
                if isinstance(st.value, ast.Constant):
                    continue
                if isinstance(st.value, ast.Call) and isinstance(st.value.func, ast.Attribute) and isinstance(st.value.func.value, ast.Name) \
                        and st.value.func.value.id in env and st.value.func.attr in ('append', 'update', 'setdefault', 'extend'):
                    obj = env[st.value.func.value.id]
                    args = [self.ev(x, env) for x in st.value.args]
                    if st.value.func.attr == 'append' and isinstance(obj, list) and len(args) == 1:
                        obj.append(args[0])
                    elif st.value.func.attr == 'extend' and isinstance(obj, list) and len(args) == 1 and isinstance(args[0], (list, tuple)):
                        obj.extend(args[0])
                    elif st.value.func.attr == 'update' and isinstance(obj, dict) and len(args) == 1 and isinstance(args[0], dict):
                        obj.update(args[0])
                    elif st.value.func.attr == 'setdefault' and isinstance(obj, dict) and len(args) == 2:
                        obj.setdefault(args[0], args[1])
                    else:
                        raise NotConstant('call')
                    continue
                raise NotConstant('expression statement')
            elif isinstance(st, (ast.Assign, ast.AnnAssign)):
                if getattr(st, 'value', None) is None:
                    continue
                v = self.ev(st.value, env)
                for t in (st.targets if isinstance(st, ast.Assign) else [st.target]):
                    self.assign(t, v, env)
            elif isinstance(st, ast.AugAssign) and isinstance(st.target, ast.Name) and st.target.id in env:
                env[st.target.id] = self.binop(st.op, env[st.target.id], self.ev(st.value, env))
            elif isinstance(st, ast.For) and not st.orelse:
                it = self.ev(st.iter, env)
                if not isinstance(it, (tuple, list, dict)):
                    raise NotConstant('loop over a non-literal')
                for x in list(it):
                    self.assign(st.target, x, env)
                    self.block(st.body, env)
            elif isinstance(st, ast.If):
                self.block(st.body if self.ev(st.test, env) else st.orelse, env)
            elif isinstance(st, ast.Return):
                raise _Ret(self.ev(st.value, env) if st.value is not None else None)
            elif isinstance(st, ast.Pass):
                continue
            else:
                raise NotConstant(type(st).__name__)

    def assign(self, t, v, env):
        if isinstance(t, ast.Name):
            env[t.id] = v
        elif isinstance(t, (ast.Tuple, ast.List)):
            if not isinstance(v, (tuple, list)) or len(v) != len(t.elts):
                raise NotConstant('unpacking')
            for a, b in zip(t.elts, v):
                self.assign(a, b, env)
        elif isinstance(t, ast.Subscript) and isinstance(t.value, ast.Name) and t.value.id in env and isinstance(env[t.value.id], dict):
            env[t.value.id][self.hashable(self.ev(t.slice, env))] = v
        else:
            raise NotConstant('assignment target')

    @staticmethod
    def hashable(k):
        if isinstance(k, (str, int, float, bool, type(None))) or (isinstance(k, tuple) and all(isinstance(x, (str, int, float, bool)) for x in k)):
            return k
        raise NotConstant('key')

    def binop(self, op, a, b):
        try:
            if isinstance(op, ast.Add):
                return a + b
            if isinstance(op, ast.Sub):
                return a - b
            if isinstance(op, ast.Mult):
                return a * b
            if isinstance(op, ast.Div):
                return a / b
            if isinstance(op, ast.Pow) and isinstance(a, (int, float)) and isinstance(b, (int, float)) and abs(b) < 64:
                return a ** b
            if isinstance(op, ast.Mod) and isinstance(a, str):
                return a % b
        except Exception:
            raise NotConstant('arithmetic')
        raise NotConstant('operator')

    def ev(self, e, env):
        self.steps += 1
        if self.steps > MAX_STEPS:
            raise NotConstant('step bound')
        if isinstance(e, ast.Constant):
            return e.value
        if isinstance(e, ast.Name):
            if isinstance(env, _Scope):
                found, v = env.lookup(e.id)
                if found:
                    return v
            elif e.id in env:
                return env[e.id]
            if e.id in self.consts:
                return self.consts[e.id]
            raise NotConstant(f'name {e.id}')
        if isinstance(e, ast.Attribute):
            x = e
            while isinstance(x, ast.Attribute):
                x = x.value
            if isinstance(x, ast.Name) and x.id[:1].isupper() and not (x.id in env or x.id in self.consts):
                return Sym(e)                    # Class.CONSTANT: an opaque reference
            raise NotConstant('attribute')
        if isinstance(e, ast.Lambda):
            a = e.args
            if a.vararg or a.kwarg or a.kwonlyargs or a.posonlyargs:
                raise NotConstant('lambda signature')
            return Closure(e, env, [self.ev(d, env) for d in a.defaults])
        if isinstance(e, (ast.GeneratorExp, ast.ListComp)):
            out = []
            if isinstance(env, _Scope):
                parent = env
            else:
                parent = _Scope(None)
                parent.update(env)
            scope = _Scope(parent)

            def gen(i):
                if i == len(e.generators):
                    out.append(self.ev(e.elt, scope))
                    return
                g = e.generators[i]
                if g.is_async:
                    raise NotConstant('async comprehension')
                it = self.ev(g.iter, scope if i else env)
                if not isinstance(it, (tuple, list, dict)):
                    raise NotConstant('loop over a non-literal')
                for x in list(it):
                    self.steps += 1
                    if self.steps > MAX_STEPS:
                        raise NotConstant('step bound')
                    self.assign(g.target, x, scope)
                    if all(self.ev(c, scope) for c in g.ifs):
                        gen(i + 1)
            gen(0)
            return out
        if isinstance(e, ast.Tuple):
            return tuple(self.ev(x, env) for x in e.elts)
        if isinstance(e, ast.List):
            return [self.ev(x, env) for x in e.elts]
        if isinstance(e, ast.Dict):
            if any(k is None for k in e.keys):
                raise NotConstant('dict unpacking')
            return {self.hashable(self.ev(k, env)): self.ev(v, env) for k, v in zip(e.keys, e.values)}
        if isinstance(e, ast.BinOp):
            return self.binop(e.op, self.ev(e.left, env), self.ev(e.right, env))
        if isinstance(e, ast.UnaryOp):
            v = self.ev(e.operand, env)
            if isinstance(e.op, ast.USub):
                return -v
            if isinstance(e.op, ast.Not):
                return not v
            raise NotConstant('unary')
        if isinstance(e, ast.JoinedStr):
            out = ''
            for p in e.values:
                if isinstance(p, ast.Constant):
                    out += str(p.value)
                elif isinstance(p, ast.FormattedValue) and p.format_spec is None and p.conversion == -1:
                    v = self.ev(p.value, env)
                    if not isinstance(v, (str, int)):
                        raise NotConstant('formatted value')
                    out += str(v)
                else:
                    raise NotConstant('format spec')
            return out
        if isinstance(e, ast.Compare) and len(e.ops) == 1:
            a, b = self.ev(e.left, env), self.ev(e.comparators[0], env)
            op = e.ops[0]
            try:
                return {ast.Eq: lambda: a == b, ast.NotEq: lambda: a != b, ast.Lt: lambda: a < b, ast.LtE: lambda: a <= b, ast.Gt: lambda: a > b,
                        ast.GtE: lambda: a >= b, ast.In: lambda: a in b, ast.NotIn: lambda: a not in b, ast.Is: lambda: a is b,
                        ast.IsNot: lambda: a is not b}[type(op)]()
            except Exception:
                raise NotConstant('comparison')
        if isinstance(e, ast.BoolOp):
            v = None
            for x in e.values:
                v = self.ev(x, env)
                if bool(v) != isinstance(e.op, ast.And):
                    return v
            return v
        if isinstance(e, ast.IfExp):
            return self.ev(e.body if self.ev(e.test, env) else e.orelse, env)
        if isinstance(e, ast.Subscript):
            b = self.ev(e.value, env)
            if isinstance(e.slice, ast.Slice):
                lo = self.ev(e.slice.lower, env) if e.slice.lower is not None else None
                hi = self.ev(e.slice.upper, env) if e.slice.upper is not None else None
                if isinstance(b, (tuple, list, str)) and e.slice.step is None:
                    return b[lo:hi]
                raise NotConstant('slice')
            k = self.ev(e.slice, env)
            try:
                return b[k]
            except Exception:
                raise NotConstant('subscript')
        if isinstance(e, ast.Call) and isinstance(e.func, ast.Name) and e.func.id in ('dict', 'list', 'tuple', 'str', 'len') and not e.keywords:
            args = [self.ev(x, env) for x in e.args]
            try:
                return {'dict': dict, 'list': list, 'tuple': tuple, 'str': str, 'len': len}[e.func.id](*args)
            except Exception:
                raise NotConstant('builtin')
        if isinstance(e, ast.Call) and isinstance(e.func, ast.Attribute) and e.func.attr in ('items', 'keys', 'values', 'upper', 'lower', 'capitalize', 'title', 'strip', 'copy') \
                and not e.args and not e.keywords:
            b = self.ev(e.func.value, env)
            if isinstance(b, dict) and e.func.attr in ('items', 'keys', 'values', 'copy'):
                r = getattr(b, e.func.attr)()
                return dict(r) if e.func.attr == 'copy' else tuple(r)
            if isinstance(b, str) and e.func.attr in ('upper', 'lower', 'capitalize', 'title', 'strip'):
                return getattr(b, e.func.attr)()
            raise NotConstant('method')
        raise NotConstant(type(e).__name__)


def to_ast(v):
    if isinstance(v, Sym):
        import copy as _copy
        return _copy.deepcopy(v.node)
    if isinstance(v, Closure):
        import copy as _copy
        lam = _copy.deepcopy(v.node)
        lam.args.defaults = [to_ast(d) for d in v.defaults]
        params = {a.arg for a in lam.args.args}
        env = v.env

        class _Free(ast.NodeTransformer):
            def visit_Lambda(self, node):
                return node if node is not lam else self.generic_visit(node)

            def visit_Name(self, node):
                if isinstance(node.ctx, ast.Load) and node.id not in params:
                    if isinstance(env, _Scope):
                        found, val = env.lookup(node.id)
                    else:
                        found, val = (node.id in env), env.get(node.id)
                    if found:
                        return ast.copy_location(to_ast(val), node)      # the value the variable has once the building expression is done
                return node
        lam.body = _Free().visit(lam.body)
        return lam
    if isinstance(v, dict):
        return ast.Dict(keys=[to_ast(k) for k in v], values=[to_ast(x) for x in v.values()])
    if isinstance(v, tuple):
        return ast.Tuple(elts=[to_ast(x) for x in v], ctx=ast.Load())
    if isinstance(v, list):
        return ast.List(elts=[to_ast(x) for x in v], ctx=ast.Load())
    if isinstance(v, float) and (v != v or v in (float('inf'), float('-inf'))):
        raise NotConstant('non-finite')
    if isinstance(v, (int, float)) and not isinstance(v, bool) and v < 0:
        return ast.UnaryOp(op=ast.USub(), operand=ast.Constant(value=-v))
    if isinstance(v, (str, int, float, bool, type(None))):
        return ast.Constant(value=v)
    raise NotConstant('value kind')


def fold_table_helpers(trees, base, log):
    """replace `<targets> = helper(<literals>)` in class bodies / at module level by the folded constant; helper = new module-level function"""
    count = 0
    for mname, tree in trees.items():
        known = base.get(mname, {})
        helpers = {n.name: n for n in tree.body if isinstance(n, ast.FunctionDef) and n.name not in known.get('funcs', {})}
        comps = any(isinstance(x, (ast.GeneratorExp, ast.ListComp)) for st in tree.body if isinstance(st, (ast.Assign, ast.AnnAssign)) for x in ast.walk(st))
        if not helpers and not comps:
            continue
        # module-level literal constants (new or old) the helpers may read
        consts = {}
        probe = Folder({})
        for st in tree.body:
            if isinstance(st, (ast.Assign, ast.AnnAssign)) and getattr(st, 'value', None) is not None:
                t = st.targets[0] if isinstance(st, ast.Assign) and len(st.targets) == 1 else getattr(st, 'target', None)
                if isinstance(t, ast.Name):
                    try:
                        consts[t.id] = probe.ev(st.value, {})
                    except NotConstant:
                        pass

        def fold_in(body):
            nonlocal count
            replaced = []
            try:
                _fold_in(body, replaced)
            finally:
                for (i, parts) in reversed(replaced):
                    body[i:i + 1] = parts

        def _fold_in(body, replaced):
            nonlocal count
            for i, st in enumerate(body):
                if isinstance(st, (ast.Assign, ast.AnnAssign)) and isinstance(getattr(st, 'value', None), ast.Call) and isinstance(st.value.func, ast.Name) \
                        and st.value.func.id in helpers and not st.value.keywords:
                    try:
                        f = Folder(consts)
                        args = [f.ev(a, {}) for a in st.value.args]
                        v = f.call(helpers[st.value.func.id], args)
                        new = to_ast(v)
                    except (NotConstant, _Ret, RecursionError):
                        continue
                    tgt = st.targets[0] if isinstance(st, ast.Assign) and len(st.targets) == 1 else getattr(st, 'target', None)
                    if isinstance(tgt, (ast.Tuple, ast.List)) and isinstance(new, ast.Tuple) and len(tgt.elts) == len(new.elts) \
                            and all(isinstance(t_, ast.Name) for t_ in tgt.elts):
                        # a, b, c = (A, B, C)  ->  a = A; b = B; c = C   (constants: no evaluation order to preserve)
                        parts = [ast.copy_location(ast.Assign(targets=[ast.Name(id=t_.id, ctx=ast.Store())], value=v_, lineno=st.lineno), st)
                                 for t_, v_ in zip(tgt.elts, new.elts)]
                        for p_ in parts:
                            ast.fix_missing_locations(p_)
                        replaced.append((i, parts))
                    else:
                        st.value = ast.copy_location(new, st.value)
                        ast.fix_missing_locations(st)
                    count += 1
        fold_in(tree.body)
        for c in tree.body:
            if isinstance(c, ast.ClassDef):
                fold_in(c.body)
        count += fold_comprehension_constants(tree, known, consts)
        # helpers that are no longer referenced go
        for name, fn in helpers.items():
            refs = sum(1 for t in trees.values() for x in ast.walk(t) if (isinstance(x, ast.Name) and x.id == name) or (isinstance(x, ast.Constant) and x.value == name))
            if refs == 0 and fn in tree.body:
                tree.body.remove(fn)
    if count:
        log.append(f'N1 {count} call(s) of a pure table-building helper with literal arguments folded into the constant they denote')


def fold_comprehension_constants(tree, known, consts):
    """`NAME = tuple(<comprehension over constant tables>)` for a new module-level NAME -> the literal it denotes"""
    n = 0
    for st in tree.body:
        if not isinstance(st, (ast.Assign, ast.AnnAssign)) or getattr(st, 'value', None) is None:
            continue
        t = st.targets[0] if isinstance(st, ast.Assign) and len(st.targets) == 1 else getattr(st, 'target', None)
        if not isinstance(t, ast.Name) or t.id in known.get('consts', ()):
            continue
        if not any(isinstance(x, (ast.GeneratorExp, ast.ListComp)) for x in ast.walk(st.value)):
            continue
        try:
            f = Folder(consts)
            v = f.ev(st.value, {})
            new = to_ast(v)
        except (NotConstant, _Ret, RecursionError):
            continue
        st.value = ast.copy_location(new, st.value)
        ast.fix_missing_locations(st)
        consts[t.id] = v
        n += 1
    return n
