"""E6 -- literal / table evaluator for units.py.

Evaluates, without executing anything, the class-body tables of every Quantity
subclass (_baseunit, _units, _displayunits, _descriptions, _sidict) and the
module-level statements that fill the conversion tables:

    X._mul = {A: B, ...}                X._div = {...}
    QUANTITIES = [A, B, ...]
    Dimensionless._mul = {q: q for q in QUANTITIES}
    for q in QUANTITIES:
        q._mul[Dimensionless] = q ; q._div[Dimensionless] = q ; q._div[q] = Dimensionless

Any other statement in the package that writes one of the table attributes makes
the table facts unsound and is an analysis error (exit 2), not a silent pass.
"""
from __future__ import annotations

import ast

from .core import AnalysisError, NOCONST, Program, const_value, unparse, walk_shallow

TABLE_ATTRS = ('_mul', '_div', '_units', '_displayunits', '_descriptions', '_sidict', '_baseunit')


class Entry:
    __slots__ = ('key', 'value', 'node', 'origin')

    def __init__(self, key, value, node, origin):
        self.key, self.value, self.node, self.origin = key, value, node, origin


class DictLit:
    """a dict display evaluated to literal keys/values, keeping duplicates and positions"""

    def __init__(self, node):
        self.node = node
        self.items = []         # (key, value, key_node, value_node)
        self.ok = isinstance(node, ast.Dict)
        if not self.ok:
            return
        for k, v in zip(node.keys, node.values):
            if k is None:
                self.ok = False
                continue
            self.items.append((const_value(k), const_value(v), k, v))

    def as_dict(self):
        return {k: v for (k, v, _kn, _vn) in self.items}

    def duplicates(self):
        seen = {}
        dups = []
        for (k, v, kn, vn) in self.items:
            if k in seen:
                dups.append((k, seen[k], v, kn))
            seen[k] = v
        return dups


class UnitTables:
    def __init__(self, prog: Program):
        self.prog = prog
        self.mod = prog.module('units')
        self.qclasses = [c for c in prog.subclasses('Quantity')]
        self.tables = {}        # class -> {attr: DictLit | literal}
        self.siunits = prog.const('SI', 'SIUNITS')
        if self.siunits is NOCONST or not isinstance(self.siunits, tuple):
            raise AnalysisError('anchor vanished: SI.SIUNITS is not a literal tuple')
        for c in self.qclasses:
            ci = prog.cls(c)
            t = {}
            for attr in ('_units', '_displayunits', '_descriptions', '_sidict'):
                _dc, expr = prog.resolve_attr(c, attr)
                if expr is None or not isinstance(expr, ast.Dict):
                    raise AnalysisError(f'{c}.{attr} is not a dict display in the class body')
                t[attr] = DictLit(expr)
                if not t[attr].ok:
                    raise AnalysisError(f'{c}.{attr} uses ** unpacking; cannot be evaluated')
            _dc, expr = prog.resolve_attr(c, '_baseunit')
            t['_baseunit'] = const_value(expr) if expr is not None else NOCONST
            t['_baseunit_node'] = expr
            self.tables[c] = t
        self.mul = {c: {} for c in self.qclasses}      # A -> {B: Entry(result)}
        self.div = {c: {} for c in self.qclasses}
        self.quantities = None
        self.quantities_node = None
        self.n_explicit = 0
        self.n_generated = 0
        self.aliased = []
        self._eval_module_level()
        self._audit_other_writers()

    # ------------------------------------------------------------------
    def _tab(self, attr):
        return self.mul if attr == '_mul' else self.div

    def _cls_name(self, node, q=None):
        if isinstance(node, ast.Name):
            if q is not None and node.id == q[0]:
                return q[1]
            if node.id in self.tables:
                return node.id
        return None

    def _eval_module_level(self):
        for st in self.mod.tree.body:
            if isinstance(st, ast.ClassDef):
                # class-body _mul / _div initialisers must be empty dicts
                if st.name in self.tables:
                    for m in st.body:
                        if isinstance(m, ast.Assign):
                            for t in m.targets:
                                if isinstance(t, ast.Name) and t.id in ('_mul', '_div'):
                                    if not (isinstance(m.value, ast.Dict) and not m.value.keys):
                                        raise AnalysisError(f'{st.name}.{t.id} initialised in the class body with a non-empty '
                                                            f'expression; table built by unrecognised construct')
                continue
            if isinstance(st, ast.Assign) and len(st.targets) == 1 and isinstance(st.targets[0], ast.Name) and st.targets[0].id == 'QUANTITIES':
                if not isinstance(st.value, (ast.List, ast.Tuple)) or not all(isinstance(e, ast.Name) for e in st.value.elts):
                    raise AnalysisError('QUANTITIES is not a list display of class names')
                self.quantities = [e.id for e in st.value.elts]
                self.quantities_node = st
                continue
            if isinstance(st, ast.Assign) and all(isinstance(t, ast.Attribute) and t.attr in ('_mul', '_div') and isinstance(t.value, ast.Name)
                                                  for t in st.targets):
                # one dict object, possibly bound to several tables (a chained assignment aliases them, as in Python)
                shared = {}
                if isinstance(st.value, ast.Dict):
                    for k, v in zip(st.value.keys, st.value.values):
                        kn, vn = self._cls_name(k), self._cls_name(v)
                        if kn is None or vn is None:
                            raise AnalysisError(f'{unparse(st.targets[0])}: entry {unparse(k) if k else "**"}: {unparse(v)} is not class: class')
                        shared[kn] = Entry(kn, vn, v, 'explicit-duplicate' if kn in shared else 'explicit')
                        self.n_explicit += 1
                elif isinstance(st.value, ast.DictComp) and len(st.value.generators) == 1 and isinstance(st.value.generators[0].target, ast.Name) \
                        and unparse(st.value.generators[0].iter) == 'QUANTITIES' and not st.value.generators[0].ifs and self.quantities is not None:
                    g = st.value.generators[0]
                    for qn in self.quantities:
                        kn = self._cls_name(st.value.key, (g.target.id, qn))
                        vn = self._cls_name(st.value.value, (g.target.id, qn))
                        if kn is None or vn is None:
                            raise AnalysisError(f'{unparse(st)}: comprehension entry not class: class')
                        shared[kn] = Entry(kn, vn, st.value, 'generated')
                        self.n_generated += 1
                else:
                    raise AnalysisError(f'table built by unrecognised construct: {unparse(st)[:80]}')
                for t in st.targets:
                    cls = t.value.id
                    if cls not in self.tables:
                        raise AnalysisError(f'{unparse(t)}: not a Quantity class')
                    self._tab(t.attr)[cls] = shared
                if len(st.targets) > 1:
                    self.aliased.append(' = '.join(unparse(t) for t in st.targets))
                continue
            if isinstance(st, ast.For) and unparse(st.iter) == 'QUANTITIES' and isinstance(st.target, ast.Name):
                if self.quantities is None:
                    raise AnalysisError('for-loop over QUANTITIES before its definition')
                for qn in self.quantities:
                    for s in st.body:
                        ok = isinstance(s, ast.Assign) and len(s.targets) == 1 and isinstance(s.targets[0], ast.Subscript) \
                            and isinstance(s.targets[0].value, ast.Attribute) and s.targets[0].value.attr in ('_mul', '_div')
                        if not ok:
                            raise AnalysisError(f'table built by unrecognised construct: {unparse(s)[:80]}')
                        tgt = s.targets[0]
                        owner = self._cls_name(tgt.value.value, (st.target.id, qn))
                        kn = self._cls_name(tgt.slice, (st.target.id, qn))
                        vn = self._cls_name(s.value, (st.target.id, qn))
                        if None in (owner, kn, vn):
                            raise AnalysisError(f'table built by unrecognised construct: {unparse(s)[:80]}')
                        self._tab(tgt.value.attr)[owner][kn] = Entry(kn, vn, s, 'generated')
                        self.n_generated += 1
                continue
            # any other module-level statement must not touch table attributes
            for n in ast.walk(st):
                if isinstance(n, ast.Attribute) and n.attr in TABLE_ATTRS and isinstance(n.ctx, (ast.Store, ast.Del)):
                    raise AnalysisError(f'table built by unrecognised construct: {unparse(st)[:80]}')
                if isinstance(n, ast.Subscript) and isinstance(n.ctx, (ast.Store, ast.Del)) and isinstance(n.value, ast.Attribute) \
                        and n.value.attr in TABLE_ATTRS:
                    raise AnalysisError(f'table built by unrecognised construct: {unparse(st)[:80]}')
        if self.quantities is None:
            raise AnalysisError('anchor vanished: QUANTITIES list in units.py')

    def _audit_other_writers(self):
        """no function anywhere in the package writes a table attribute"""
        for oc, fn, mod in self.prog.functions():
            for n in walk_shallow(fn):
                tgt = None
                if isinstance(n, ast.Attribute) and isinstance(n.ctx, (ast.Store, ast.Del)) and n.attr in TABLE_ATTRS:
                    tgt = n
                elif isinstance(n, ast.Subscript) and isinstance(n.ctx, (ast.Store, ast.Del)) and isinstance(n.value, ast.Attribute) \
                        and n.value.attr in TABLE_ATTRS:
                    tgt = n
                elif isinstance(n, ast.Call) and isinstance(n.func, ast.Attribute) and isinstance(n.func.value, ast.Attribute) \
                        and n.func.value.attr in TABLE_ATTRS and n.func.attr in ('update', 'pop', 'clear', 'setdefault', 'popitem', '__setitem__'):
                    tgt = n
                if tgt is not None:
                    # instance attribute named _unit is different (not in TABLE_ATTRS); anything matching is suspicious
                    raise AnalysisError(f'{oc.name if oc else mod.name}.{fn.name}:{tgt.lineno} writes a unit/conversion table at run '
                                        f'time ({unparse(tgt)[:60]}); the table rules would be unsound')

    # ------------------------------------------------------------------
    def sig(self, cname):
        d = self.tables[cname]['_sidict'].as_dict()
        return {k: v for k, v in d.items() if isinstance(v, int) and v != 0}

    @staticmethod
    def comb(a, b, s):
        r = dict(a)
        for k, v in b.items():
            r[k] = r.get(k, 0) + s * v
        return {k: v for k, v in r.items() if v}

    def units(self, cname):
        return self.tables[cname]['_units'].as_dict()
