"""E12 -- abstract interpretation of the membership / removal methods of a list-backed event list for ONE event e with stored key K.

Complete case split of the entry state of the backing list F:
    empty      F has no element
    absent     F has elements, none equal to K
    first      K stands at position 0
    later      K stands at a position >= 1
(the same event stored twice is outside the domain: the key contains the event, add() is the only writer).

Abstract values:  ('bool', b) | NONE | ('int', n) | POS (the position of K, an int >= 1: only in case `later`; in case `first` the
position is the concrete ('int', 0)) | LEN (len(F) >= 1) | KEY | EVENT | LIST | OTHER.
Every condition is decided in this domain, so a loop-free method (with the helper methods it calls on self walked in place and
try/except followed on ValueError / IndexError) has exactly one outcome per case: the returned value, and what left the list
(`K`, `another element`, nothing).  Hand-written scans (loops, element reads) are outside the domain -> Unsupported, and the caller falls back
to its syntactic rule.  Nothing of the analysed program is executed.
"""
from __future__ import annotations

import ast

from .core import body_of, is_self_attr, unparse


class Unsupported(Exception):
    pass


class _Raise(Exception):
    def __init__(self, kind):
        self.kind = kind


class _Return(Exception):
    def __init__(self, value):
        self.value = value


NONE = ('none',)
POS = ('pos',)
LEN = ('len',)
KEY = ('key',)
EVENT = ('event',)
LIST = ('list',)
OTHER = ('other',)
MIN_ENTRY = ('minentry',)
MIN_EVENT = ('minevent',)

CASES = [('empty', 'the list is empty'), ('absent', 'other events are pending, this one is not'), ('first', 'the event is the first element of the backing list'),
         ('later', 'the event stands at a later position of the backing list')]


class Interp:
    def __init__(self, prog, cls, F, case, is_key):
        self.prog, self.cls, self.F, self.case = prog, cls, F, case
        self.is_key = is_key                 # (expr, name bound to the event) -> bool: the expression is the key add() stores for that event
        self.present = case in ('first', 'later')
        self.others = case != 'empty' and (case == 'absent' or None)      # True: certainly other elements; None: not known (K may be alone)
        self.removed = None                  # None | 'K' | 'other' | 'min'
        self.depth = 0
        self.ev_index = None                 # position of the event in a heap entry (None: the events are the entries)

    # ------------------------------------------------------------------ statements
    def run(self, fn):
        env = {fn.args.args[1].arg: EVENT}
        try:
            self.block(body_of(fn), env)
        except _Return as r:
            return ('return', r.value)
        except _Raise as e:
            return ('raise', e.kind)
        return ('return', NONE)

    def block(self, stmts, env):
        for st in stmts:
            self.stmt(st, env)

    def stmt(self, st, env):
        if isinstance(st, ast.Expr):
            if not isinstance(st.value, ast.Constant):
                self.ev(st.value, env)
            return
        if isinstance(st, (ast.Pass, ast.Assert)):
            return
        if isinstance(st, ast.Return):
            raise _Return(self.ev(st.value, env) if st.value is not None else NONE)
        if isinstance(st, ast.Raise):
            raise _Raise(unparse(st.exc.func) if isinstance(st.exc, ast.Call) else (unparse(st.exc) if st.exc is not None else 're-raise'))
        if isinstance(st, ast.If):
            self.block(st.body if self.truth(self.ev(st.test, env)) else st.orelse, env)
            return
        if isinstance(st, (ast.Assign, ast.AnnAssign)):
            if getattr(st, 'value', None) is None:
                return
            v = self.ev(st.value, env)
            for t in (st.targets if isinstance(st, ast.Assign) else [st.target]):
                if isinstance(t, ast.Name):
                    env[t.id] = v
                else:
                    raise Unsupported(f'assignment to `{unparse(t)}`')
            return
        if isinstance(st, ast.Delete):
            for t in st.targets:
                if isinstance(t, ast.Subscript) and is_self_attr(t.value, self.F) and not isinstance(t.slice, ast.Slice):
                    self.remove_at(self.ev(t.slice, env))
                else:
                    raise Unsupported(f'del `{unparse(t)}`')
            return
        if isinstance(st, ast.Try):
            try:
                self.block(st.body, env)
            except _Raise as e:
                for h in st.handlers:
                    names = [] if h.type is None else [unparse(x) for x in (h.type.elts if isinstance(h.type, ast.Tuple) else [h.type])]
                    if h.type is None or e.kind in names or 'Exception' in names or 'BaseException' in names or \
                            (e.kind in ('KeyError', 'IndexError') and 'LookupError' in names):
                        self.block(h.body, env)
                        break
                else:
                    if st.finalbody:
                        self.block(st.finalbody, env)
                    raise
            else:
                self.block(st.orelse, env)
            if st.finalbody:
                self.block(st.finalbody, env)
            return
        raise Unsupported(f'{type(st).__name__} statement')

    # ------------------------------------------------------------------ the list
    def position(self):
        if not self.present:
            raise _Raise('ValueError')
        return ('int', 0) if self.case == 'first' else POS

    def remove_key(self):
        if not self.present:
            raise _Raise('ValueError')
        self.present = False
        self.removed = self.removed or 'K'

    def remove_at(self, i):
        if self.removed is not None:
            raise Unsupported('a second removal')
        if self.case == 'empty':
            raise _Raise('IndexError')
        if self.present and ((self.case == 'first' and i == ('int', 0)) or (self.case == 'later' and i == POS)):
            self.present = False
            self.removed = 'K'
            return
        if i == NONE:
            raise _Raise('TypeError')
        if isinstance(i, tuple) and i[0] in ('int', 'pos', 'len'):
            if i == LEN:
                raise _Raise('IndexError')
            if i[0] == 'int' and self.case == 'first' and self.others is None and i[1] not in (0, -1):
                raise Unsupported('position in a list of unknown length')
            self.removed = 'other'         # some element that is not the event (or not known to be it)
            return
        raise Unsupported(f'removal at {i}')

    def nonempty(self):
        if self.removed is not None:
            raise Unsupported('emptiness after a removal')
        return self.case != 'empty'

    # ------------------------------------------------------------------ expressions
    def truth(self, v):
        if v == NONE:
            return False
        if isinstance(v, tuple) and v[0] == 'bool':
            return v[1]
        if isinstance(v, tuple) and v[0] == 'int':
            return v[1] != 0
        if v in (POS, LEN, KEY, EVENT, OTHER, MIN_ENTRY, MIN_EVENT):
            return True
        if v == LIST:
            return self.nonempty()
        raise Unsupported(f'truth of {v}')

    def ev(self, e, env):
        if isinstance(e, ast.Constant):
            if e.value is None:
                return NONE
            if isinstance(e.value, bool):
                return ('bool', e.value)
            if isinstance(e.value, int):
                return ('int', e.value)
            return OTHER
        if isinstance(e, ast.UnaryOp) and isinstance(e.op, ast.USub) and isinstance(e.operand, ast.Constant) and isinstance(e.operand.value, int) \
                and not isinstance(e.operand.value, bool):
            return ('int', -e.operand.value)
        if isinstance(e, ast.UnaryOp) and isinstance(e.op, ast.Not):
            return ('bool', not self.truth(self.ev(e.operand, env)))
        if isinstance(e, ast.Name):
            if e.id in env:
                return env[e.id]
            return OTHER
        if isinstance(e, ast.Tuple):
            evn = next((k for k, v in env.items() if v == EVENT), None)
            if evn is not None and self.is_key(e, evn):
                return KEY
            return OTHER
        if isinstance(e, ast.List) and not e.elts:
            return ('emptylist',)
        if isinstance(e, ast.BoolOp):
            is_and = isinstance(e.op, ast.And)
            v = None
            for x in e.values:
                v = self.ev(x, env)
                if self.truth(v) != is_and:
                    return v
            return v
        if isinstance(e, ast.IfExp):
            return self.ev(e.body if self.truth(self.ev(e.test, env)) else e.orelse, env)
        if isinstance(e, ast.Attribute):
            if is_self_attr(e, self.F):
                return LIST
            return OTHER
        if isinstance(e, ast.Compare) and len(e.ops) == 1:
            return self.compare(e, env)
        if isinstance(e, ast.Call):
            return self.call(e, env)
        if isinstance(e, ast.Subscript) and not isinstance(e.slice, ast.Slice):
            base = self.ev(e.value, env)
            i = self.ev(e.slice, env)
            if base == LIST and i == ('int', 0):
                if not self.nonempty():
                    raise _Raise('IndexError')
                return MIN_ENTRY                     # F[0] of a heap: the entry with the smallest key (the heap discipline is R1.1)
            if base == MIN_ENTRY and isinstance(i, tuple) and i[0] == 'int':
                return MIN_EVENT if i[1] == self.ev_index else ('component', i[1])
            raise Unsupported(f'subscript `{unparse(e)[:40]}`')
        if isinstance(e, ast.JoinedStr):
            return OTHER
        if isinstance(e, ast.NamedExpr) and isinstance(e.target, ast.Name):
            v = self.ev(e.value, env)
            env[e.target.id] = v
            return v
        raise Unsupported(f'expression `{unparse(e)[:40]}`')

    @staticmethod
    def _bounds(v):
        """(lo, hi) of an integer value; hi None = unbounded"""
        if isinstance(v, tuple) and v[0] == 'int':
            return v[1], v[1]
        if v in (POS, LEN):
            return 1, None
        return None

    def compare(self, e, env):
        op = e.ops[0]
        a, b = self.ev(e.left, env), self.ev(e.comparators[0], env)
        if isinstance(op, (ast.In, ast.NotIn)):
            if b != LIST:
                raise Unsupported('membership in something else')
            if a == EVENT and self.is_key(None, None):
                a = KEY
            if a == KEY:
                r = self.present
            elif a in (OTHER,):
                raise Unsupported('membership of something else')
            else:
                raise Unsupported('membership of a non-key')
            return ('bool', r if isinstance(op, ast.In) else not r)
        if isinstance(op, (ast.Is, ast.IsNot, ast.Eq, ast.NotEq)) and (a == NONE or b == NONE):
            other = b if a == NONE else a
            if other == OTHER:
                raise Unsupported('None test of an unknown value')
            r = a == b
            return ('bool', r if isinstance(op, (ast.Is, ast.Eq)) else not r)
        if (a == LIST and b == ('emptylist',)) or (b == LIST and a == ('emptylist',)):
            if isinstance(op, (ast.Eq, ast.NotEq)):
                r = not self.nonempty()
                return ('bool', r if isinstance(op, ast.Eq) else not r)
        if isinstance(a, tuple) and a[0] == 'bool' and isinstance(b, tuple) and b[0] == 'bool' and isinstance(op, (ast.Eq, ast.NotEq, ast.Is, ast.IsNot)):
            r = a[1] == b[1]
            return ('bool', r if isinstance(op, (ast.Eq, ast.Is)) else not r)
        ba, bb = self._bounds(a), self._bounds(b)
        if ba is None or bb is None:
            raise Unsupported(f'comparison `{unparse(e)[:40]}`')
        if a == POS and b == LEN:
            table = {ast.Lt: True, ast.LtE: True, ast.Gt: False, ast.GtE: False, ast.Eq: False, ast.NotEq: True}
        elif a == LEN and b == POS:
            table = {ast.Lt: False, ast.LtE: False, ast.Gt: True, ast.GtE: True, ast.Eq: False, ast.NotEq: True}
        elif a == b and a in (POS, LEN):
            table = {ast.Lt: False, ast.LtE: True, ast.Gt: False, ast.GtE: True, ast.Eq: True, ast.NotEq: False}
        else:
            (alo, ahi), (blo, bhi) = ba, bb
            table = {}
            # a < b certainly / certainly not
            def lt(alo, ahi, blo, bhi):
                if ahi is not None and ahi < blo:
                    return True
                if bhi is not None and alo >= bhi:
                    return False
                return None
            def le(alo, ahi, blo, bhi):
                if ahi is not None and ahi <= blo:
                    return True
                if bhi is not None and alo > bhi:
                    return False
                return None
            table[ast.Lt] = lt(alo, ahi, blo, bhi)
            table[ast.LtE] = le(alo, ahi, blo, bhi)
            g = lt(blo, bhi, alo, ahi)
            table[ast.Gt] = g
            ge = le(blo, bhi, alo, ahi)
            table[ast.GtE] = ge
            if ahi is not None and bhi is not None and alo == ahi == blo == bhi:
                eq = True
            elif table[ast.Lt] is True or g is True:
                eq = False
            else:
                eq = None
            table[ast.Eq] = eq
            table[ast.NotEq] = None if eq is None else (not eq)
            table[ast.Is] = eq
            table[ast.IsNot] = table[ast.NotEq]
        r = table.get(type(op))
        if r is None:
            raise Unsupported(f'comparison `{unparse(e)[:40]}` is not decided')
        return ('bool', r)

    def call(self, e, env):
        f = e.func
        ft = unparse(f)
        if ft == 'isinstance':
            return ('bool', True)                  # the argument of the analysed call is an event, as documented
        if ft == 'len' and len(e.args) == 1:
            v = self.ev(e.args[0], env)
            if v == LIST:
                return LEN if self.nonempty() else ('int', 0)
            raise Unsupported('len of something else')
        if ft == 'bool' and len(e.args) == 1:
            return ('bool', self.truth(self.ev(e.args[0], env)))
        if ft in ('logger.debug', 'logger.info', 'logger.warning', 'print'):
            return NONE
        if ft in ('heapq.heapify',) and len(e.args) == 1 and self.ev(e.args[0], env) == LIST:
            return NONE
        if ft == 'heapq.heappop' and len(e.args) == 1 and self.ev(e.args[0], env) == LIST:
            if self.removed is not None:
                raise Unsupported('a second removal')
            if not self.nonempty():
                raise _Raise('IndexError')
            self.removed = 'min'
            return MIN_ENTRY
        if isinstance(f, ast.Attribute):
            recv, m = f.value, f.attr
            if isinstance(recv, ast.Name) and recv.id == 'self':
                ci, fn2 = self.prog.resolve(self.cls, m)
                if fn2 is None or self.depth >= 3:
                    raise Unsupported(f'call of self.{m}')
                params = [a.arg for a in fn2.args.args[1:]]
                if e.keywords or len(e.args) != len(params):
                    raise Unsupported(f'call of self.{m} with defaults / keywords')
                vals = [self.ev(a, env) for a in e.args]
                self.depth += 1
                try:
                    try:
                        self.block(body_of(fn2), dict(zip(params, vals)))
                        r = NONE
                    except _Return as rr:
                        r = rr.value
                finally:
                    self.depth -= 1
                return r
            rv = self.ev(recv, env)
            args = [self.ev(a, env) for a in e.args]
            if self.is_key(None, None):
                args = [KEY if a == EVENT else a for a in args]          # the events themselves are the elements of the list
            if rv == LIST and not e.keywords:
                if m == 'index' and args == [KEY]:
                    return self.position()
                if m == 'count' and args == [KEY]:
                    return ('int', 1 if self.present else 0)
                if m == 'remove' and args == [KEY]:
                    if self.removed is not None:
                        raise Unsupported('a second removal')
                    self.remove_key()
                    return NONE
                if m == 'pop' and len(args) == 1:
                    self.remove_at(args[0])
                    return OTHER
                if m == '__contains__' and args == [KEY]:
                    return ('bool', self.present)
                raise Unsupported(f'list operation .{m}')
            raise Unsupported(f'call `{unparse(e)[:40]}`')
        raise Unsupported(f'call `{unparse(e)[:40]}`')


def _as_bool(v):
    if isinstance(v, tuple) and v[0] == 'bool':
        return v[1]
    if isinstance(v, tuple) and v[0] == 'int' and v[1] in (0, 1):
        return bool(v[1])
    return None


def check_observers(prog, cls, F, is_key, contains_fn, remove_fn):
    """-> ({'contains': [(case id, description, what is wrong)], 'remove': [...]}, None)  or  (None, reason outside the domain)"""
    problems = {'contains': [], 'remove': []}
    for kind, fn in (('contains', contains_fn), ('remove', remove_fn)):
        for (cid, desc) in CASES:
            it = Interp(prog, cls, F, cid, is_key)
            try:
                out = it.run(fn)
            except Unsupported as e:
                return None, f'{kind}: {e}'
            except RecursionError:
                return None, 'recursion'
            present = cid in ('first', 'later')
            if out[0] == 'raise':
                problems[kind].append((cid, desc, f'{out[1]} escapes'))
                continue
            b = _as_bool(out[1])
            if kind == 'contains':
                if it.removed is not None:
                    problems[kind].append((cid, desc, 'contains() removes an element'))
                elif b is None:
                    problems[kind].append((cid, desc, f'contains() returns {out[1][0]}, not a truth value'))
                elif b != present:
                    problems[kind].append((cid, desc, f'contains() answers {b}'))
            else:
                if present:
                    if it.removed != 'K':
                        problems[kind].append((cid, desc, 'the event is still on the list afterwards' + (' and another element was removed' if it.removed == 'other' else '')
                                               + (f' (remove() returns {b})' if b is not None else '')))
                    elif b is not True:
                        problems[kind].append((cid, desc, f'the event is removed but remove() returns {b if b is not None else out[1][0]}'))
                else:
                    if it.removed is not None:
                        problems[kind].append((cid, desc, 'an element is removed although the event is not on the list'))
                    elif b is not False:
                        problems[kind].append((cid, desc, f'nothing is removed but remove() returns {b if b is not None else out[1][0]}'))
    return problems, None


def check_peek_pop(prog, cls, F, ev_index, peek_fn, pop_fn):
    """peek_first / pop_first for an empty and a non-empty list -> ({'peek_first': [...], 'pop_first': [...]}, None) or (None, reason)"""
    problems = {'peek_first': [], 'pop_first': []}
    for kind, fn in (('peek_first', peek_fn), ('pop_first', pop_fn)):
        for (cid, desc) in (('empty', 'the list is empty'), ('absent', 'events are pending')):
            it = Interp(prog, cls, F, cid, lambda e, n: False)
            it.ev_index = ev_index
            env_fn = fn
            try:
                try:
                    it.block(body_of(env_fn), {})
                    out = ('return', NONE)
                except _Return as r:
                    out = ('return', r.value)
                except _Raise as e:
                    out = ('raise', e.kind)
            except Unsupported as e:
                return None, f'{kind}: {e}'
            except RecursionError:
                return None, 'recursion'
            if out[0] == 'raise':
                problems[kind].append((cid, desc, f'{out[1]} escapes'))
                continue
            want_event = MIN_EVENT if ev_index is not None else MIN_ENTRY
            if cid == 'empty':
                if out[1] != NONE:
                    problems[kind].append((cid, desc, f'{kind}() returns {out[1][0]}, not None'))
                elif it.removed is not None:
                    problems[kind].append((cid, desc, 'an element is removed from an empty list'))
            else:
                if out[1] != want_event:
                    what = 'None' if out[1] == NONE else (f'component {out[1][1]} of the smallest entry' if out[1][0] == 'component' else
                                                            'the whole heap entry' if out[1] == MIN_ENTRY else out[1][0])
                    problems[kind].append((cid, desc, f'{kind}() returns {what}, not the event of the smallest entry'))
                elif kind == 'peek_first' and it.removed is not None:
                    problems[kind].append((cid, desc, 'peek_first() removes an element'))
                elif kind == 'pop_first' and it.removed != 'min':
                    problems[kind].append((cid, desc, 'pop_first() hands out the first event without removing it' if it.removed is None
                                           else 'pop_first() removes another element than the smallest'))
    return problems, None
