"""E12 -- abstract interpretation of the membership / removal methods of a list-backed event list for ONE event e with stored key K.

Complete case split of the entry state of the backing list F:
    empty      F has no element
    absent     F has elements, none equal to K
    first      K stands at position 0
    later      K stands at a position >= 1
(the same event stored twice is outside the domain: the key contains the event, add() is the only writer).

Abstract values:  ('bool', b) | NONE | ('int', n) | POS (the position of K, an int >= 1: only in case `later`; in case `first` the
position is the concrete ('int', 0)) | LEN (len(F) >= 1) | KEY | EVENT | LIST | OTHER.
Every condition is decided in this domain, so a loop-free method (with the helper methods it calls on self walked in place and
try/except followed on ValueError / IndexError) has exactly one outcome per case: the returned value, and what left the list
(`K`, `another element`, nothing).  Hand-written scans (loops, element reads) are outside the domain -> Unsupported, and the caller falls back
to its syntactic rule.  Nothing of the analysed program is executed.
"""
from __future__ import annotations

import ast

from .core import body_of, is_self_attr, unparse


class Unsupported(Exception):
    pass


class _Raise(Exception):
    def __init__(self, kind):
        self.kind = kind


class _Return(Exception):
    def __init__(self, value):
        self.value = value


NONE = ('none',)
POS = ('pos',)
LEN = ('len',)
KEY = ('key',)
EVENT = ('event',)
LIST = ('list',)
OTHER = ('other',)
MIN_ENTRY = ('minentry',)
MIN_EVENT = ('minevent',)
ID_K = ('idK',)            # the id of the event under analysis
ID_O = ('idO',)            # the id of some other event
SKEY = ('skey',)            # the entry stored on the list for the event under analysis (equal to KEY, component by component)
STORED = ('stored',)        # the event object inside that entry: equal to the handle passed in; the same object only in the `same object` cases
OENTRY = ('oentry',)        # the entry of some other event
UNK = ('unkint',)          # an integer this domain does not know (a count kept for another event)
UBOOL = ('ubool',)         # a truth value this domain does not know: both branches are followed and must agree on everything tracked

CASES = [('empty', 'the list is empty'), ('absent', 'other events are pending, this one is not'), ('first', 'the event is the first element of the backing list'),
         ('later', 'the event stands at a later position of the backing list')]


class Interp:
    def __init__(self, prog, cls, F, case, is_key):
        self.prog, self.cls, self.F, self.case = prog, cls, F, case
        self.is_key = is_key                 # (expr, name bound to the event) -> bool: the expression is the key add() stores for that event
        self.present = case in ('first', 'later')
        self.others = case != 'empty' and (case == 'absent' or None)      # True: certainly other elements; None: not known (K may be alone)
        self.removed = None                  # None | 'K' | 'other' | 'min' | 'all'
        self.depth = 0
        self.ev_index = None                 # position of the event in a heap entry (None: the events are the entries)
        self.index_fields = ()               # dict / set fields kept beside the list (event id -> count / membership)
        self.id_index = None                 # position of the id in a heap entry
        self.comp_of = None                  # (expr, event name) -> 'id' | 'time' | ...  for attribute reads of the event
        self.idx = {}                        # index field -> count recorded for the id of the event under analysis
        self.min_is_K = False
        self.same_object = True              # the handle passed in is the very object on the list (False: an equal copy, e.g. unpickled)

    def _state(self):
        return (self.present, self.removed, self.case, tuple(sorted(self.idx.items())), self.min_is_K)

    def _restore(self, st):
        self.present, self.removed, self.case, idx, self.min_is_K = st
        self.idx = dict(idx)

    def _count(self, X):
        if X not in self.idx:
            self.idx[X] = 1 if (self.case in ('first', 'later')) else 0      # the class invariant: recorded exactly when on the list
        return self.idx[X]

    # ------------------------------------------------------------------ statements
    def run(self, fn):
        env = {fn.args.args[1].arg: EVENT}
        try:
            self.block(body_of(fn), env)
        except _Return as r:
            return ('return', r.value)
        except _Raise as e:
            return ('raise', e.kind)
        return ('return', NONE)

    def block(self, stmts, env):
        for st in stmts:
            self.stmt(st, env)

    def stmt(self, st, env):
        if isinstance(st, ast.Expr):
            if not isinstance(st.value, ast.Constant):
                self.ev(st.value, env)
            return
        if isinstance(st, (ast.Pass, ast.Assert)):
            return
        if isinstance(st, ast.Return):
            raise _Return(self.ev(st.value, env) if st.value is not None else NONE)
        if isinstance(st, ast.Raise):
            raise _Raise(unparse(st.exc.func) if isinstance(st.exc, ast.Call) else (unparse(st.exc) if st.exc is not None else 're-raise'))
        if isinstance(st, ast.If):
            t = self.ev(st.test, env)
            if t == UBOOL:
                # not decided in this domain: both branches, which must agree on everything tracked
                outs = []
                st0 = self._state()
                for blk in (st.body, st.orelse):
                    self._restore(st0)
                    e2 = dict(env)
                    try:
                        self.block(blk, e2)
                        outs.append(('fall', None, self._state(), e2))
                    except _Return as r:
                        outs.append(('return', r.value, self._state(), e2))
                    except _Raise as r:
                        outs.append(('raise', r.kind, self._state(), e2))
                if outs[0][:3] != outs[1][:3]:
                    raise Unsupported('branches of an undecided test differ')
                self._restore(outs[0][2])
                for k in set(outs[0][3]) | set(outs[1][3]):
                    env[k] = outs[0][3].get(k) if outs[0][3].get(k) == outs[1][3].get(k) else UNK
                if outs[0][0] == 'return':
                    raise _Return(outs[0][1])
                if outs[0][0] == 'raise':
                    raise _Raise(outs[0][1])
                return
            self.block(st.body if self.truth(t) else st.orelse, env)
            return
        if isinstance(st, (ast.Assign, ast.AnnAssign)):
            if getattr(st, 'value', None) is None:
                return
            v = self.ev(st.value, env)
            for t in (st.targets if isinstance(st, ast.Assign) else [st.target]):
                if isinstance(t, ast.Name):
                    env[t.id] = v
                elif isinstance(t, ast.Subscript) and is_self_attr(t.value) and t.value.attr in self.index_fields:
                    k = self.ev(t.slice, env)
                    if k == ID_K:
                        if not (isinstance(v, tuple) and v[0] == 'int'):
                            raise Unsupported('a count this domain does not know is recorded for the event')
                        self._count(t.value.attr)
                        self.idx[t.value.attr] = v[1]
                    elif k != ID_O:
                        raise Unsupported('index store under something else than an event id')
                elif is_self_attr(t, self.F) and isinstance(st.value, ast.List) and not st.value.elts:
                    self.present, self.removed = False, 'all'
                elif is_self_attr(t) and t.attr in self.index_fields and ((isinstance(st.value, ast.Dict) and not st.value.keys)
                                                                         or (isinstance(st.value, ast.Call) and unparse(st.value.func) in ('dict', 'set') and not st.value.args)):
                    self.idx[t.attr] = 0
                else:
                    raise Unsupported(f'assignment to `{unparse(t)}`')
            return
        if isinstance(st, ast.AugAssign) and isinstance(st.target, ast.Subscript) and is_self_attr(st.target.value) and st.target.value.attr in self.index_fields \
                and isinstance(st.op, (ast.Add, ast.Sub)):
            k = self.ev(st.target.slice, env)
            d = self.ev(st.value, env)
            X = st.target.value.attr
            if k == ID_K:
                if self._count(X) == 0:
                    raise _Raise('KeyError')
                if not (isinstance(d, tuple) and d[0] == 'int'):
                    raise Unsupported('index changed by an unknown amount')
                self.idx[X] = self.idx[X] + (d[1] if isinstance(st.op, ast.Add) else -d[1])
            elif k != ID_O:
                raise Unsupported('index update under something else than an event id')
            return
        if isinstance(st, ast.Delete):
            for t in st.targets:
                if isinstance(t, ast.Subscript) and is_self_attr(t.value, self.F) and not isinstance(t.slice, ast.Slice):
                    self.remove_at(self.ev(t.slice, env))
                elif isinstance(t, ast.Subscript) and is_self_attr(t.value) and t.value.attr in self.index_fields:
                    k = self.ev(t.slice, env)
                    if k == ID_K:
                        if self._count(t.value.attr) == 0:
                            raise _Raise('KeyError')
                        self.idx[t.value.attr] = 0
                    elif k != ID_O:
                        raise Unsupported('index deletion under something else than an event id')
                else:
                    raise Unsupported(f'del `{unparse(t)}`')
            return
        if isinstance(st, ast.Try):
            try:
                self.block(st.body, env)
            except _Raise as e:
                for h in st.handlers:
                    names = [] if h.type is None else [unparse(x) for x in (h.type.elts if isinstance(h.type, ast.Tuple) else [h.type])]
                    if h.type is None or e.kind in names or 'Exception' in names or 'BaseException' in names or \
                            (e.kind in ('KeyError', 'IndexError') and 'LookupError' in names):
                        self.block(h.body, env)
                        break
                else:
                    if st.finalbody:
                        self.block(st.finalbody, env)
                    raise
            else:
                self.block(st.orelse, env)
            if st.finalbody:
                self.block(st.finalbody, env)
            return
        raise Unsupported(f'{type(st).__name__} statement')

    # ------------------------------------------------------------------ the list
    def position(self):
        if not self.present:
            raise _Raise('ValueError')
        if self.case == 'somewhere':
            raise Unsupported('position of an event pushed on this path')
        return ('int', 0) if self.case == 'first' else POS

    def remove_key(self):
        if not self.present:
            raise _Raise('ValueError')
        self.present = False
        self.removed = self.removed or 'K'

    def remove_at(self, i):
        if self.removed is not None:
            raise Unsupported('a second removal')
        if self.case == 'empty':
            raise _Raise('IndexError')
        if self.present and ((self.case == 'first' and i == ('int', 0)) or (self.case == 'later' and i == POS)):
            self.present = False
            self.removed = 'K'
            return
        if i == NONE:
            raise _Raise('TypeError')
        if isinstance(i, tuple) and i[0] in ('int', 'pos', 'len'):
            if i == LEN:
                raise _Raise('IndexError')
            if i[0] == 'int' and self.case == 'first' and self.others is None and i[1] not in (0, -1):
                raise Unsupported('position in a list of unknown length')
            self.removed = 'other'         # some element that is not the event (or not known to be it)
            return
        raise Unsupported(f'removal at {i}')

    def nonempty(self):
        if self.removed is not None:
            raise Unsupported('emptiness after a removal')
        return self.case != 'empty'

    # ------------------------------------------------------------------ expressions
    def truth(self, v):
        if v == NONE:
            return False
        if isinstance(v, tuple) and v[0] == 'bool':
            return v[1]
        if isinstance(v, tuple) and v[0] == 'int':
            return v[1] != 0
        if v in (POS, LEN, KEY, EVENT, OTHER, MIN_ENTRY, MIN_EVENT, SKEY, STORED, OENTRY):
            return True
        if isinstance(v, tuple) and v and v[0] == 'elems':
            return bool(v[1])
        if v in (UNK, UBOOL):
            raise Unsupported('a value this domain does not know decides a condition')
        if v == LIST:
            return self.nonempty()
        raise Unsupported(f'truth of {v}')

    def ev(self, e, env):
        if isinstance(e, ast.Constant):
            if e.value is None:
                return NONE
            if isinstance(e.value, bool):
                return ('bool', e.value)
            if isinstance(e.value, int):
                return ('int', e.value)
            return OTHER
        if isinstance(e, ast.UnaryOp) and isinstance(e.op, ast.USub) and isinstance(e.operand, ast.Constant) and isinstance(e.operand.value, int) \
                and not isinstance(e.operand.value, bool):
            return ('int', -e.operand.value)
        if isinstance(e, ast.UnaryOp) and isinstance(e.op, ast.Not):
            return ('bool', not self.truth(self.ev(e.operand, env)))
        if isinstance(e, ast.Name):
            if e.id in env:
                return env[e.id]
            if e.id == 'self':
                return ('selfobj',)
            return OTHER
        if isinstance(e, (ast.GeneratorExp, ast.ListComp)) and len(e.generators) == 1 and not e.generators[0].ifs and isinstance(e.generators[0].target, ast.Name):
            g = e.generators[0]
            return ('elems', [self.ev(e.elt, {**env, g.target.id: x}) for x in self.elements(self.ev(g.iter, env), env)])
        if isinstance(e, ast.Tuple):
            evn = next((k for k, v in env.items() if v == EVENT), None)
            if evn is not None and self.is_key(e, evn):
                return KEY
            return OTHER
        if isinstance(e, ast.List) and not e.elts:
            return ('emptylist',)
        if isinstance(e, ast.BoolOp):
            is_and = isinstance(e.op, ast.And)
            v = None
            for x in e.values:
                v = self.ev(x, env)
                if self.truth(v) != is_and:
                    return v
            return v
        if isinstance(e, ast.IfExp):
            return self.ev(e.body if self.truth(self.ev(e.test, env)) else e.orelse, env)
        if isinstance(e, ast.Attribute):
            if is_self_attr(e, self.F):
                return LIST
            if is_self_attr(e) and e.attr in self.index_fields:
                return ('index', e.attr)
            if isinstance(e.value, ast.Name) and env.get(e.value.id) == EVENT and self.comp_of is not None and self.comp_of(e, e.value.id) == 'id':
                return ID_K
            return OTHER
        if isinstance(e, ast.BinOp) and isinstance(e.op, (ast.Add, ast.Sub)):
            a, b = self.ev(e.left, env), self.ev(e.right, env)
            if isinstance(a, tuple) and a[0] == 'int' and isinstance(b, tuple) and b[0] == 'int':
                return ('int', a[1] + b[1] if isinstance(e.op, ast.Add) else a[1] - b[1])
            if UNK in (a, b) and all(x == UNK or (isinstance(x, tuple) and x[0] == 'int') for x in (a, b)):
                return UNK
            raise Unsupported(f'arithmetic `{unparse(e)[:40]}`')
        if isinstance(e, ast.Compare) and len(e.ops) == 1:
            return self.compare(e, env)
        if isinstance(e, ast.Call):
            return self.call(e, env)
        if isinstance(e, ast.Subscript) and not isinstance(e.slice, ast.Slice):
            base = self.ev(e.value, env)
            i = self.ev(e.slice, env)
            if base == LIST and i == ('int', 0):
                if not self.nonempty():
                    raise _Raise('IndexError')
                self.min_is_K = self.present and self.case == 'first'
                return MIN_ENTRY                     # F[0] of a heap: the entry with the smallest key (the heap discipline is R1.1)
            if base == MIN_ENTRY and isinstance(i, tuple) and i[0] == 'int':
                if i[1] == self.id_index and self.id_index is not None:
                    return ID_K if self.min_is_K else ID_O
                return MIN_EVENT if i[1] == self.ev_index else ('component', i[1])
            if base == SKEY and isinstance(i, tuple) and i[0] == 'int':
                if i[1] == self.id_index and self.id_index is not None:
                    return ID_K
                return STORED if i[1] == self.ev_index else OTHER
            if base == OENTRY and isinstance(i, tuple) and i[0] == 'int':
                return ID_O if (i[1] == self.id_index and self.id_index is not None) else OTHER
            if base == KEY and isinstance(i, tuple) and i[0] == 'int':
                if i[1] == self.id_index and self.id_index is not None:
                    return ID_K
                if i[1] == self.ev_index:
                    return EVENT
                return OTHER
            if isinstance(base, tuple) and base[0] == 'index':
                X = base[1]
                if i == ID_K:
                    if self._count(X) == 0:
                        raise _Raise('KeyError')
                    return ('int', self.idx[X])
                if i == ID_O:
                    return UNK
                raise Unsupported('index lookup with something else than an event id')
            raise Unsupported(f'subscript `{unparse(e)[:40]}`')
        if isinstance(e, ast.JoinedStr):
            return OTHER
        if isinstance(e, ast.NamedExpr) and isinstance(e.target, ast.Name):
            v = self.ev(e.value, env)
            env[e.target.id] = v
            return v
        raise Unsupported(f'expression `{unparse(e)[:40]}`')

    def elements(self, it, env):
        """abstract elements an iterable evaluates to (order does not matter for any / all)"""
        if it == LIST:
            els = []
            if self.present:
                els.append(SKEY)
            if self.case == 'absent' or (self.case in ('first', 'later', 'somewhere') and self.others is not False):
                els.append(OENTRY)
            return els
        if it == ('selfobj',):
            r = self.prog.resolve(self.cls, '__iter__')
            fn = r[1] if r else None
            if fn is None:
                raise Unsupported('iteration over self without __iter__')
            body = body_of(fn)
            if len(body) == 1 and isinstance(body[0], ast.Return) and isinstance(body[0].value, (ast.GeneratorExp, ast.ListComp)) and len(body[0].value.generators) == 1 \
                    and not body[0].value.generators[0].ifs and isinstance(body[0].value.generators[0].target, ast.Name):
                g = body[0].value.generators[0]
                return [self.ev(body[0].value.elt, {**env, g.target.id: x}) for x in self.elements(self.ev(g.iter, env), env)]
            if len(body) == 1 and isinstance(body[0], ast.For) and isinstance(body[0].target, ast.Name) and len(body[0].body) == 1 and isinstance(body[0].body[0], ast.Expr) \
                    and isinstance(body[0].body[0].value, ast.Yield) and body[0].body[0].value.value is not None:
                f_ = body[0]
                return [self.ev(f_.body[0].value.value, {**env, f_.target.id: x}) for x in self.elements(self.ev(f_.iter, env), env)]
            if len(body) == 1 and isinstance(body[0], ast.Return) and isinstance(body[0].value, ast.Call) and unparse(body[0].value.func) == 'iter' and len(body[0].value.args) == 1:
                return self.elements(self.ev(body[0].value.args[0], env), env)
            raise Unsupported('__iter__ of another form')
        if isinstance(it, tuple) and it and it[0] == 'elems':
            return list(it[1])
        raise Unsupported('iteration over something else')

    @staticmethod
    def _bounds(v):
        """(lo, hi) of an integer value; hi None = unbounded"""
        if isinstance(v, tuple) and v[0] == 'int':
            return v[1], v[1]
        if v in (POS, LEN):
            return 1, None
        return None

    def compare(self, e, env):
        op = e.ops[0]
        a, b = self.ev(e.left, env), self.ev(e.comparators[0], env)
        if isinstance(op, (ast.In, ast.NotIn)) and isinstance(b, tuple) and b[0] == 'index':
            if a == ID_K:
                r = self._count(b[1]) > 0
                return ('bool', r if isinstance(op, ast.In) else not r)
            if a == ID_O:
                return UBOOL
            raise Unsupported('index membership of something else than an event id')
        if UNK in (a, b) and isinstance(op, (ast.Lt, ast.LtE, ast.Gt, ast.GtE, ast.Eq, ast.NotEq)):
            return UBOOL
        if isinstance(op, (ast.In, ast.NotIn)):
            if b != LIST:
                raise Unsupported('membership in something else')
            if a == EVENT and self.is_key(None, None):
                a = KEY
            if a == KEY:
                r = self.present
            elif a in (OTHER,):
                raise Unsupported('membership of something else')
            else:
                raise Unsupported('membership of a non-key')
            return ('bool', r if isinstance(op, ast.In) else not r)
        objs = (EVENT, STORED, KEY, SKEY, OENTRY, OTHER)
        if isinstance(op, (ast.Is, ast.IsNot, ast.Eq, ast.NotEq)) and a in objs and b in objs and OTHER not in (a, b) or \
                (isinstance(op, (ast.Is, ast.IsNot, ast.Eq, ast.NotEq)) and {a, b} <= set(objs) and OTHER in (a, b) and (a, b) != (OTHER, OTHER)):
            pair = {a, b}
            if pair in ({EVENT, STORED}, {KEY, SKEY}):
                equal, same = True, (self.same_object if pair == {EVENT, STORED} else False)
            elif a == b:
                equal, same = True, True
            else:
                equal, same = False, False          # another event / entry: neither equal (ids are unique) nor identical
            r = equal if isinstance(op, (ast.Eq, ast.NotEq)) else same
            return ('bool', r if isinstance(op, (ast.Eq, ast.Is)) else not r)
        if isinstance(op, (ast.Is, ast.IsNot, ast.Eq, ast.NotEq)) and (a == NONE or b == NONE):
            other = b if a == NONE else a
            if other == OTHER:
                raise Unsupported('None test of an unknown value')
            r = a == b
            return ('bool', r if isinstance(op, (ast.Is, ast.Eq)) else not r)
        if (a == LIST and b == ('emptylist',)) or (b == LIST and a == ('emptylist',)):
            if isinstance(op, (ast.Eq, ast.NotEq)):
                r = not self.nonempty()
                return ('bool', r if isinstance(op, ast.Eq) else not r)
        if isinstance(a, tuple) and a[0] == 'bool' and isinstance(b, tuple) and b[0] == 'bool' and isinstance(op, (ast.Eq, ast.NotEq, ast.Is, ast.IsNot)):
            r = a[1] == b[1]
            return ('bool', r if isinstance(op, (ast.Eq, ast.Is)) else not r)
        ba, bb = self._bounds(a), self._bounds(b)
        if ba is None or bb is None:
            raise Unsupported(f'comparison `{unparse(e)[:40]}`')
        if a == POS and b == LEN:
            table = {ast.Lt: True, ast.LtE: True, ast.Gt: False, ast.GtE: False, ast.Eq: False, ast.NotEq: True}
        elif a == LEN and b == POS:
            table = {ast.Lt: False, ast.LtE: False, ast.Gt: True, ast.GtE: True, ast.Eq: False, ast.NotEq: True}
        elif a == b and a in (POS, LEN):
            table = {ast.Lt: False, ast.LtE: True, ast.Gt: False, ast.GtE: True, ast.Eq: True, ast.NotEq: False}
        else:
            (alo, ahi), (blo, bhi) = ba, bb
            table = {}
            # a < b certainly / certainly not
            def lt(alo, ahi, blo, bhi):
                if ahi is not None and ahi < blo:
                    return True
                if bhi is not None and alo >= bhi:
                    return False
                return None
            def le(alo, ahi, blo, bhi):
                if ahi is not None and ahi <= blo:
                    return True
                if bhi is not None and alo > bhi:
                    return False
                return None
            table[ast.Lt] = lt(alo, ahi, blo, bhi)
            table[ast.LtE] = le(alo, ahi, blo, bhi)
            g = lt(blo, bhi, alo, ahi)
            table[ast.Gt] = g
            ge = le(blo, bhi, alo, ahi)
            table[ast.GtE] = ge
            if ahi is not None and bhi is not None and alo == ahi == blo == bhi:
                eq = True
            elif table[ast.Lt] is True or g is True:
                eq = False
            else:
                eq = None
            table[ast.Eq] = eq
            table[ast.NotEq] = None if eq is None else (not eq)
            table[ast.Is] = eq
            table[ast.IsNot] = table[ast.NotEq]
        r = table.get(type(op))
        if r is None:
            raise Unsupported(f'comparison `{unparse(e)[:40]}` is not decided')
        return ('bool', r)

    def call(self, e, env):
        f = e.func
        ft = unparse(f)
        if ft == 'isinstance':
            return ('bool', True)                  # the argument of the analysed call is an event, as documented
        if ft == 'len' and len(e.args) == 1:
            v = self.ev(e.args[0], env)
            if v == LIST:
                return LEN if self.nonempty() else ('int', 0)
            raise Unsupported('len of something else')
        if ft == 'bool' and len(e.args) == 1:
            return ('bool', self.truth(self.ev(e.args[0], env)))
        if ft in ('any', 'all') and len(e.args) == 1:
            v = self.ev(e.args[0], env)
            if not (isinstance(v, tuple) and v and v[0] == 'elems'):
                v = ('elems', self.elements(v, env))
            ts = [self.truth(x) for x in v[1]]
            return ('bool', any(ts) if ft == 'any' else all(ts))
        if ft in ('logger.debug', 'logger.info', 'logger.warning', 'print'):
            return NONE
        if ft in ('heapq.heapify',) and len(e.args) == 1 and self.ev(e.args[0], env) == LIST:
            return NONE
        if ft == 'heapq.heappop' and len(e.args) == 1 and self.ev(e.args[0], env) == LIST:
            if self.removed is not None:
                raise Unsupported('a second removal')
            if not self.nonempty():
                raise _Raise('IndexError')
            self.removed = 'min'
            self.min_is_K = self.present and self.case == 'first'      # position 0 of a heap is its minimum
            if self.min_is_K:
                self.present = False
            return MIN_ENTRY
        if ft == 'heapq.heappush' and len(e.args) == 2 and self.ev(e.args[0], env) == LIST:
            v = self.ev(e.args[1], env)
            if v != KEY or self.present:
                raise Unsupported('push of something else than the key of an absent event')
            self.present, self.case = True, 'somewhere'
            return NONE
        if isinstance(f, ast.Attribute):
            recv, m = f.value, f.attr
            if isinstance(recv, ast.Name) and recv.id == 'self':
                ci, fn2 = self.prog.resolve(self.cls, m)
                if fn2 is None or self.depth >= 3:
                    raise Unsupported(f'call of self.{m}')
                params = [a.arg for a in fn2.args.args[1:]]
                if e.keywords or len(e.args) != len(params):
                    raise Unsupported(f'call of self.{m} with defaults / keywords')
                vals = [self.ev(a, env) for a in e.args]
                self.depth += 1
                try:
                    try:
                        self.block(body_of(fn2), dict(zip(params, vals)))
                        r = NONE
                    except _Return as rr:
                        r = rr.value
                finally:
                    self.depth -= 1
                return r
            rv = self.ev(recv, env)
            args = [self.ev(a, env) for a in e.args]
            if self.is_key(None, None):
                args = [KEY if a == EVENT else a for a in args]          # the events themselves are the elements of the list
            if rv == LIST and not e.keywords:
                if m == 'index' and args == [KEY]:
                    return self.position()
                if m == 'count' and args == [KEY]:
                    return ('int', 1 if self.present else 0)
                if m == 'remove' and args == [KEY]:
                    if self.removed is not None:
                        raise Unsupported('a second removal')
                    self.remove_key()
                    return NONE
                if m == 'pop' and len(args) == 1:
                    self.remove_at(args[0])
                    return OTHER
                if m == '__contains__' and args == [KEY]:
                    return ('bool', self.present)
                if m == 'clear' and not args:
                    self.present, self.removed = False, 'all'
                    return NONE
                raise Unsupported(f'list operation .{m}')
            if isinstance(rv, tuple) and rv[0] == 'index' and not e.keywords:
                X = rv[1]
                if m == 'clear' and not args:
                    self.idx[X] = 0
                    return NONE
                if m == 'get' and args and args[0] == ID_K:
                    return ('int', self.idx[X]) if self._count(X) > 0 else (args[1] if len(args) > 1 else NONE)
                if m == 'get' and args and args[0] == ID_O:
                    return UNK
                if m in ('add',) and args == [ID_K]:
                    self._count(X)
                    self.idx[X] = 1
                    return NONE
                if m in ('discard', 'remove', 'pop') and args and args[0] == ID_K:
                    if self._count(X) == 0:
                        if m == 'discard' or (m == 'pop' and len(args) > 1):
                            return NONE
                        raise _Raise('KeyError')
                    self.idx[X] = 0
                    return NONE
                if m in ('add', 'discard', 'remove', 'pop') and args and args[0] == ID_O:
                    return UNK
                raise Unsupported(f'index operation .{m}')
            raise Unsupported(f'call `{unparse(e)[:40]}`')
        raise Unsupported(f'call `{unparse(e)[:40]}`')


def _as_bool(v):
    if isinstance(v, tuple) and v[0] == 'bool':
        return v[1]
    if isinstance(v, tuple) and v[0] == 'int' and v[1] in (0, 1):
        return bool(v[1])
    return None


def _configure(it, cfg):
    if cfg:
        it.index_fields, it.id_index, it.comp_of = tuple(cfg.get('index_fields', ())), cfg.get('id_index'), cfg.get('comp_of')
        if cfg.get('ev_index') is not None:
            it.ev_index = cfg['ev_index']
        for X in it.index_fields:
            it._count(X)


def check_observers(prog, cls, F, is_key, contains_fn, remove_fn, cfg=None):
    """-> ({'contains': [(case id, description, what is wrong)], 'remove': [...]}, None)  or  (None, reason outside the domain)"""
    problems = {'contains': [], 'remove': []}
    for kind, fn in (('contains', contains_fn), ('remove', remove_fn)):
        for (cid, desc, same) in [(c_, d_, True) for (c_, d_) in CASES] + [(c_, d_ + ', and the handle is an equal copy of it (not the same object)', False)
                                                                             for (c_, d_) in CASES if c_ in ('first', 'later')]:
            it = Interp(prog, cls, F, cid, is_key)
            it.same_object = same
            _configure(it, cfg)
            try:
                out = it.run(fn)
            except Unsupported as e:
                return None, f'{kind}: {e}'
            except RecursionError:
                return None, 'recursion'
            present = cid in ('first', 'later')
            if out[0] == 'raise':
                problems[kind].append((cid, desc, f'{out[1]} escapes'))
                continue
            b = _as_bool(out[1])
            if kind == 'contains':
                if it.removed is not None:
                    problems[kind].append((cid, desc, 'contains() removes an element'))
                elif b is None:
                    problems[kind].append((cid, desc, f'contains() returns {out[1][0]}, not a truth value'))
                elif b != present:
                    problems[kind].append((cid, desc, f'contains() answers {b}'))
            else:
                if present:
                    if it.removed != 'K':
                        problems[kind].append((cid, desc, 'the event is still on the list afterwards' + (' and another element was removed' if it.removed == 'other' else '')
                                               + (f' (remove() returns {b})' if b is not None else '')))
                    elif b is not True:
                        problems[kind].append((cid, desc, f'the event is removed but remove() returns {b if b is not None else out[1][0]}'))
                else:
                    if it.removed is not None:
                        problems[kind].append((cid, desc, 'an element is removed although the event is not on the list'))
                    elif b is not False:
                        problems[kind].append((cid, desc, f'nothing is removed but remove() returns {b if b is not None else out[1][0]}'))
    return problems, None


def check_peek_pop(prog, cls, F, ev_index, peek_fn, pop_fn, cfg=None):
    """peek_first / pop_first for an empty and a non-empty list -> ({'peek_first': [...], 'pop_first': [...]}, None) or (None, reason)"""
    problems = {'peek_first': [], 'pop_first': []}
    for kind, fn in (('peek_first', peek_fn), ('pop_first', pop_fn)):
        for (cid, desc) in (('empty', 'the list is empty'), ('absent', 'events are pending')):
            it = Interp(prog, cls, F, cid, lambda e, n: False)
            it.ev_index = ev_index
            _configure(it, cfg)
            env_fn = fn
            try:
                try:
                    it.block(body_of(env_fn), {})
                    out = ('return', NONE)
                except _Return as r:
                    out = ('return', r.value)
                except _Raise as e:
                    out = ('raise', e.kind)
            except Unsupported as e:
                return None, f'{kind}: {e}'
            except RecursionError:
                return None, 'recursion'
            if out[0] == 'raise':
                problems[kind].append((cid, desc, f'{out[1]} escapes'))
                continue
            want_event = MIN_EVENT if ev_index is not None else MIN_ENTRY
            if cid == 'empty':
                if out[1] != NONE:
                    problems[kind].append((cid, desc, f'{kind}() returns {out[1][0]}, not None'))
                elif it.removed is not None:
                    problems[kind].append((cid, desc, 'an element is removed from an empty list'))
            else:
                if out[1] != want_event:
                    what = 'None' if out[1] == NONE else (f'component {out[1][1]} of the smallest entry' if out[1][0] == 'component' else
                                                            'the whole heap entry' if out[1] == MIN_ENTRY else out[1][0])
                    problems[kind].append((cid, desc, f'{kind}() returns {what}, not the event of the smallest entry'))
                elif kind == 'peek_first' and it.removed is not None:
                    problems[kind].append((cid, desc, 'peek_first() removes an element'))
                elif kind == 'pop_first' and it.removed != 'min':
                    problems[kind].append((cid, desc, 'pop_first() hands out the first event without removing it' if it.removed is None
                                           else 'pop_first() removes another element than the smallest'))
    return problems, None


def check_index_consistency(prog, cls, F, is_key, comp_of, index_fields, ev_index, id_index, methods):
    """An index kept beside the list (event id -> count, or a set of ids) records the event exactly while it is on the list: assumed at
    entry, required at every normal exit of add / pop_first / remove / clear / contains / peek_first, for every case of the entry state.
    -> ([(method, case description, what is wrong)], None) or (None, reason)."""
    problems = []
    for mname, fn in methods.items():
        takes_event = len(fn.args.args) > 1
        for (cid, desc) in CASES:
            if mname == 'add' and cid in ('first', 'later'):
                continue                      # the same event added twice is outside the domain
            it = Interp(prog, cls, F, cid, is_key)
            it.index_fields, it.ev_index, it.id_index, it.comp_of = tuple(index_fields), ev_index, id_index, comp_of
            for X in index_fields:
                it._count(X)
            try:
                try:
                    it.block(body_of(fn), {fn.args.args[1].arg: EVENT} if takes_event else {})
                except _Return:
                    pass
                except _Raise as e:
                    problems.append((mname, desc, f'{e.kind} escapes'))
                    continue
            except Unsupported as e:
                return None, f'{mname}: {e}'
            except RecursionError:
                return None, 'recursion'
            for X in index_fields:
                c = it.idx.get(X, 0)
                if (c > 0) != it.present or c not in (0, 1):
                    problems.append((mname, desc, f'afterwards the event is {"on" if it.present else "not on"} the list but `{X}` records {c} entr{"y" if c == 1 else "ies"} '
                                                  f'for it: contains() and the guard of remove() then answer for a list that no longer exists'))
    return problems, None
